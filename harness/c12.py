"""C12 slope limiters in the second-order TVD region: exhaustive exact model check of Limiters.tla on a rational grid,
and TLC-judged exact float-comparison tokens measured on the real xnum limiters over 300 decades."""
import math, os, random, sys
from fractions import Fraction
import numpy as np
from . import core, fd
from .core import Report

U = Fraction(1, 2 ** 52)


def sgn(x):
    return 0 if x == 0 else (1 if x > 0 else -1)


def cmp_tok(phi, bound):
    """0: |phi| <= bound ; 1: above by at most 2 ulp ; 2: above"""
    p, b = abs(Fraction(phi)), Fraction(bound)
    if p <= b:
        return 0
    if p <= b * (1 + 2 * U):
        return 1
    return 2


def tokens(name, fn, a, b, rnd):
    with np.errstate(all="ignore"):
        phi = float(fn(a, b))
        fin = 1 if math.isfinite(phi) else 0
        t = dict(kind="tok", lim=name, sa=sgn(a), sb=sgn(b), fin=fin)
        if fin:
            t["sp"] = sgn(phi)
            t["c2"] = cmp_tok(phi, 2 * min(abs(Fraction(a)), abs(Fraction(b))))
            t["cm"] = cmp_tok(phi, max(abs(Fraction(a)), abs(Fraction(b))))
        else:
            t.update(sp=0, c2=2, cm=2)
        ps = float(fn(b, a))
        t["sym"] = 1 if (ps == phi or (not fin and not math.isfinite(ps))) else 0
        po = float(fn(-a, -b))
        t["odd"] = 1 if (po == -phi or (not fin and not math.isfinite(po))) else 0
        # elementwise on arrays: the same pair embedded in an array mixing all regions
        arr_a = np.array([a, -a, 0.0, a, 1.0, b])
        arr_b = np.array([b, b, b, a, -2.0, a])
        out = fn(arr_a, arr_b)
        exp = [float(fn(x, y)) for x, y in zip(arr_a, arr_b)]
        # elementwise semantics; the array path and the Python-scalar path may round a**2 differently (pow vs multiply): 2 ulp
        def same(o, e):
            if math.isnan(o) and math.isnan(e):
                return True
            if o == e:
                return True
            return math.isfinite(o) and math.isfinite(e) and abs(Fraction(o) - Fraction(e)) <= 2 * U * max(abs(Fraction(o)), abs(Fraction(e)))
        t["vec"] = 1 if all(same(float(o), float(e)) for o, e in zip(out, exp)) else 0
        # ... and on arrays of other shapes: 2-D, a column against a row (numpy broadcasting: entry (i, j) is phi(col_i, row_j)),
        # an array against a scalar, a non-contiguous view
        col = np.array([[a], [-a], [b], [0.5 * a]])
        row = np.array([[b, a, -b, 0.0, 2.0 * b]])
        for (x, y) in ((col, row), (row, col), (col * np.ones((1, 5)), row * np.ones((4, 1))), (col, b), (a, row),
                       (np.array([a, 7.0, b, 7.0, -a])[::2], np.array([b, 7.0, a, 7.0, b])[::2])):
            o2 = np.asarray(fn(x, y), dtype=float)
            xb, yb = np.broadcast_arrays(np.asarray(x, dtype=float), np.asarray(y, dtype=float))
            if o2.shape != xb.shape or not all(same(float(o), float(fn(float(p_), float(q_))))
                                               for o, p_, q_ in zip(o2.ravel(), xb.ravel(), yb.ravel())):
                t["vec"] = 0
        # homogeneity / idempotence only where the property states them
        large = 1 if (abs(a) >= 1e-8 and abs(b) >= 1e-8 and abs(a) <= 1e150 and abs(b) <= 1e150) else 0
        t["large"] = large
        t["hom"], t["idem"] = 1, 1
        if large and fin:
            for lam in (2.0, 0.5, 3.0, 1.0 / 7.0, 1024.0):
                la, lb = lam * a, lam * b
                if not (1e-8 <= abs(la) <= 1e150 and 1e-8 <= abs(lb) <= 1e150):
                    continue
                pl = float(fn(la, lb))
                want = Fraction(lam) * Fraction(phi)
                m2 = min(Fraction(a) ** 2, Fraction(b) ** 2, Fraction(la) ** 2, Fraction(lb) ** 2)
                slack = abs(want) * (4 * Fraction(1, 10 ** 20) / m2 + 16 * U)
                if not math.isfinite(pl) or abs(Fraction(pl) - want) > slack:
                    t["hom"] = 0
            pa = float(fn(a, a))
            if not math.isfinite(pa) or abs(Fraction(pa) - Fraction(a)) > abs(Fraction(a)) * (2 * Fraction(1, 10 ** 20) / Fraction(a) ** 2 + 8 * U):
                t["idem"] = 0
    t["exact"] = 0
    t["a"], t["b"], t["phi"] = [0, 1], [0, 1], [0, 1]
    return t, phi


def run(tier):
    rep = Report("C12", tier)
    rep.rule = ("model: all (a,b) on the rational grid {-B..B}/d (every sign combination, zeros, equal arguments); code: the same "
                "grid scaled by 2^e over 1e-150..1e150, random float pairs with ratios 1e-12..1e12, +-0.0, arrays; distinct = "
                "(limiter, a, b)")
    rep.assumptions = ["region comparisons are exact float comparisons made by the harness in Fraction arithmetic (2 ulp slack on "
                       "the two bounds, as the smooth limiters round)",
                       "homogeneity and phi(a,a)=a are judged only for |a|,|b| >= 1e-8 with the relative 1e-20/a^2 the property states"]
    res = core.tlc("MC_Limiters", "MC_Limiters.cfg" if tier == "quick" else "MC_Limiters_f.cfg", workers=8,
                   coverage=False, timeout=2400)
    core.tlc_must_pass(res, "MC_Limiters")
    rep.add_tlc("MC_Limiters", res)
    rep.exhaustive = True
    # the same clauses for ALL arguments (symbolic, Apalache): Init => Inv with a, b, lam unconstrained integers
    core.apalache_suite(rep, "Apa_Limiters", ["InvMinmod", "InvSuperbee", "InvVanAlbada", "InvVanLeer", "InvSweby", "InvSymOdd", "InvHomog"],
                        "model level, beyond the grid: Apa_Limiters.tla proves the region, symmetry, oddness, phi(a,a)=a, Sweby and "
                        "homogeneity clauses for ALL integer (hence, by homogeneity, all rational) arguments with Apalache/Z3; the "
                        "binding to the code remains the judged float tokens below")
    rnd = random.Random(core.seed())
    recs = []
    lims = {n: getattr(fd.xnum, n) for n in fd.LIMITERS}
    grid = [-24, -7, -3, -2, -1, 0, 1, 2, 3, 5, 24] if tier == "quick" else list(range(-24, 25))
    dens = [1, 3] if tier == "quick" else [1, 3, 4, 7]
    exps = [-498, -200, -60, -27, -1, 0, 1, 30, 200, 498] if tier == "quick" else \
        [-498, -400, -300, -200, -100, -60, -40, -27, -10, -1, 0, 1, 10, 30, 60, 100, 200, 300, 400, 498]
    pairs = []
    for d in dens:
        for x in grid:
            for y in grid:
                for e in (exps if (x, y, d) in [(1, 2, 1), (3, 3, 1), (-2, -5, 1), (24, 1, 1), (1, -1, 1), (0, 1, 1), (-7, -7, 3)]
                          or tier == "thorough" and (abs(x) + abs(y)) % 5 == 0 else [0, rnd.choice(exps)]):
                    pairs.append((math.ldexp(x / d, e), math.ldexp(y / d, e), (x, y, d, e)))
    nrand = 400 if tier == "quick" else 5000
    for _ in range(nrand):
        mag = 10.0 ** rnd.uniform(-150, 150)
        ratio = 10.0 ** rnd.uniform(-12, 12)
        a = mag * rnd.choice([1, -1])
        b = mag * ratio * rnd.choice([1, -1])
        if not (1e-150 <= abs(b) <= 1e150):
            b = mag / ratio * rnd.choice([1, -1])
        pairs.append((a, b, None))
    for sp in [(0.0, 0.0), (-0.0, 1.0), (1.0, -0.0), (0.0, -3.0), (1e-150, 1e-150), (1e150, 1e150), (-1e150, -1e150),
               (1e150, 1e138), (1e-8, 1e-8), (5e-324, 1.0)]:
        pairs.append((sp[0], sp[1], None))
    for name, fn in lims.items():
        for (a, b, g) in pairs:
            try:
                t, phi = tokens(name, fn, a, b, rnd)
            except Exception as ex:     # a limiter that raises on finite slopes (plain Python floats included) is an observation
                recs.append(dict(kind="raised", id=len(recs) + 1, lim=name, fa=repr(a), fb=repr(b), fphi="",
                                 what="%s: %s" % (type(ex).__name__, str(ex)[:80])))
                continue
            if g is not None and name in ("minmod", "superbee") and t["fin"]:
                x, y, d, e = g
                t["exact"] = 1
                t["a"], t["b"] = core.rat(Fraction(x, d)), core.rat(Fraction(y, d))
                ph = Fraction(phi) / Fraction(2) ** e
                t["phi"] = core.rat(ph) if core.fits(ph) else [0, 1]
                if not core.fits(ph):
                    t["exact"] = 0
            t["id"] = len(recs) + 1
            t["fa"], t["fb"], t["fphi"] = repr(a), repr(b), repr(phi)
            recs.append(t)
            rep.nontrivial.add((name, a, b))
    rep.evaluations = len(recs)
    for r in recs[:: max(1, len(recs) // 5)]:
        rep.sample(r)
    wd = core.scratch("c12")
    bad, jr = core.judge("Judge_Limiters", recs, wd, unjudgeable="C12_unjudgeable")
    rep.add_tlc("Judge_Limiters", jr, counts_as_model=False)
    rep.traces = len(recs)
    byid = {r["id"]: r for r in recs}
    for b in bad:
        r = byid[b["id"]]
        if b["clause"].startswith("DRIFT"):
            rep.drift.append("%s(%s,%s)=%s differs from the transcription in Limiters.tla" % (r["lim"], r["fa"], r["fb"], r["fphi"]))
            continue
        big = "huge" if max(abs(float(r["fa"])), abs(float(r["fb"]))) > 1e100 else "normal"
        rep.violation(b["clause"], {"lim": r["lim"], "magnitude": big}, r)
    return rep.finish()


if __name__ == "__main__":
    sys.exit(run(os.environ.get("VERIF_TIER", "quick")))
