"""C08 purity of solve: model check call histories on one solver object (Driver.tla / MC_Driver C08 instance),
replay every TLC-enumerated script through the real integrators, add the twin runs the relations need
(fresh-object repeat, whole run for split runs) and let TLC judge bitwise relations between histories."""
import json, os, random, sys, time
import numpy as np
from . import core
from .core import Report


def mon_dict(freqs, variant):
    """call-supplied monitor dictionary for a set of frequencies; variant rotates the monitor type"""
    d = {}
    for k, f in enumerate(freqs):
        typ = "residual" if (variant + k) % 2 == 0 else "data_average"
        mv = {"type": typ, "frequency": int(f)}
        if typ == "data_average":
            mv["data"] = "q"
        d["m%d" % f] = mv
    return d


def eff_stop(c):
    """the effective stop criteria of a call: tsave[-1] is the default tottime"""
    tot = c["tot"] if c["tot"] != -1 else (c["tsave"][-1] if c["tsave"] else -1)
    return (tot, c["maxit"])


def stop_of(c, U):
    st = {}
    if c["tot"] != -1:
        st["tottime"] = c["tot"] / U
    if c["maxit"] != -1:
        st["maxit"] = c["maxit"]
    return st or None


METHOD = {"legacy": "solve_legacy"}        # operation name in Driver.tla -> method of the real integrator


def run_script(D, cn, sc, variant, islinear=0):
    """replay one script on one real class; returns raws (script calls + twins) and relations"""
    U = D.UNIT
    # a script that uses the dtlocal directive somewhere runs on a discretisation whose per-cell steps differ from cell to cell
    # (same minimum), so that a step taken with the array differs from a step taken with its minimum -- in all its runs and twins
    spread = any(c.get("dtl") for c in sc["calls"])
    mk = lambda: D.Session(cn, ncell=3, profile=sc["prof"], t0=sc["t0"] / U, islinear=islinear, dtlocal_spread=spread)   # noqa: E731
    dirs = lambda c: ({"dtlocal": True} if c.get("dtl") else None)                                                        # noqa: E731
    S = mk()
    raws, rels, lastres = [], [], None
    idx_of_call = []
    froms = []
    # calls with the same stop criteria are given the SAME dictionary object, and the same save-time list object when equal,
    # as a user script does (stop = {'maxit': N} defined once): arguments written to by one call then reach the next one
    stop_pool, tsave_pool = {}, {}
    ncalls = 0
    for c in sc["calls"]:
        if c["cont"] and not lastres:
            break               # the previous call raised / returned nothing (judged on its own record): the script ends there
        ncalls += 1
        f = S.f0 if not c["cont"] else lastres[-1]
        mons = mon_dict(c["freqs"], variant) if c["freqs"] else None
        skey = (c["tot"], c["maxit"])
        if skey not in stop_pool:
            stop_pool[skey] = stop_of(c, U)
        tkey = tuple(c["tsave"])
        if tkey not in tsave_pool:
            tsave_pool[tkey] = [t / U for t in c["tsave"]]
        raw, res = S.call(METHOD.get(c["op"], c["op"]), f, float(c.get("cfl", 1)), tsave_pool[tkey], stop_pool[skey], monitors=mons,
                          directives=dirs(c) if c["op"] != "legacy" else None, intent={"stop": stop_of(c, U), "tsave": [t / U for t in c["tsave"]]})
        raws.append(raw)
        froms.append("last" if c["cont"] else "f0")
        idx_of_call.append(len(raws))
        lastres = res
    calls = sc["calls"][:ncalls]
    trace = D.trace_of(raws[:len(calls)], froms, sc["kind"], sc["prof"], S.f0.time, 0)
    # relations among the script's own calls
    for i in range(len(calls)):
        for j in range(i + 1, len(calls)):
            a, b = calls[i], calls[j]
            if a["op"] == b["op"] == "solve" and not a["cont"] and not b["cont"] and eff_stop(a) == eff_stop(b) \
                    and a.get("cfl", 1) == b.get("cfl", 1) and bool(a.get("dtl")) == bool(b.get("dtl")):
                if a["tsave"] == b["tsave"]:
                    rels.append({"type": "same", "a": i + 1, "b": j + 1, "c": 0})
                else:                                       # same effective stop, different save times / monitors
                    rels.append({"type": "transparent", "a": i + 1, "b": j + 1, "c": 0})
    # twin 1: the first call repeated on a fresh object
    c0 = calls[0]
    S2 = mk()
    raw, _ = S2.call(METHOD.get(c0["op"], "solve"), S2.f0, float(c0.get("cfl", 1)), [t / U for t in c0["tsave"]], stop_of(c0, U),
                     monitors=mon_dict(c0["freqs"], variant) if c0["freqs"] else None,
                     **({"directives": dirs(c0)} if c0["op"] != "legacy" else {}))
    raws.append(raw)
    rels.append({"type": "same", "a": 1, "b": len(raws), "c": 0})
    # twin 1b: every LATER solve from the user's field repeated on a fresh object: nothing an earlier call left on the solver
    # object (directives, CFL number, caches, multistep history) may reach it
    for j in range(1, len(calls)):
        cj = calls[j]
        if cj["op"] == "solve" and not cj["cont"]:
            Sj = mk()
            raw, _ = Sj.call("solve", Sj.f0, float(cj.get("cfl", 1)), [t / U for t in cj["tsave"]], stop_of(cj, U),
                             monitors=mon_dict(cj["freqs"], variant) if cj["freqs"] else None, directives=dirs(cj))
            raws.append(raw)
            rels.append({"type": "same", "a": j + 1, "b": len(raws), "c": 0})
    # twin 1c: a restart repeated, from the same field, on a FRESH object -- for the integrators without a multistep history the
    # object contributes nothing to a restart either (gear legitimately continues its BDF2 history on the same object)
    # (the implicit classes keep the finite-difference Jacobian of a model that declares itself linear: by design it is the one
    # of the first field the object saw, which a fresh object cannot know -- their restarts are not compared across objects)
    if D.KIND_OF[cn] == "onestep" or (D.KIND_OF[cn] == "implicit" and not islinear):
        for j in range(1, len(calls)):
            cj = calls[j]
            if cj["op"] == "restart" and cj["cont"] and raws[j - 1]["results"]:
                Sr = mk()
                arg = raws[j - 1]["results"][-1]
                raw, _ = Sr.call("restart", arg, float(cj.get("cfl", 1)), [t / U for t in cj["tsave"]], stop_of(cj, U),
                                 monitors=mon_dict(cj["freqs"], variant) if cj["freqs"] else None, directives=dirs(cj))
                raws.append(raw)
                rels.append({"type": "same", "a": j + 1, "b": len(raws), "c": 0})
    # twin 2: the plain run (no save time, no monitor) with the same stop, fresh object
    if (c0["tsave"] or c0["freqs"]) and c0["op"] != "legacy":
        S3 = mk()
        et, em = eff_stop(c0)
        raw, _ = S3.call("solve", S3.f0, float(c0.get("cfl", 1)), [], stop_of({"tot": et, "maxit": em}, U), directives=dirs(c0))
        raws.append(raw)
        rels.append({"type": "transparent", "a": len(raws), "b": 1, "c": 0})
    # twin 2b: only the LAST save time asked for (same stop, fresh object): the snapshot at that time is the same, whatever other
    # save times the first run was asked for (two in one step included)
    if len(c0["tsave"]) >= 2 and c0["op"] != "legacy":
        S3b = mk()
        et, em = eff_stop(c0)
        raw, _ = S3b.call("solve", S3b.f0, float(c0.get("cfl", 1)), [c0["tsave"][-1] / U], stop_of({"tot": et, "maxit": em}, U),
                          directives=dirs(c0))
        raws.append(raw)
        rels.append({"type": "transparent", "a": len(raws), "b": 1, "c": 0})
    # twin 3: whole run for solve N ; restart M  (restart from the final state only)
    for j in range(1, len(calls)):
        if calls[j]["op"] == "restart" and calls[j]["cont"] and not calls[j - 1]["tsave"] \
                and calls[j - 1]["op"] == "solve" and raws[j - 1]["nit"] > 0 and len(raws[j - 1]["res"]) == 1 \
                and calls[j].get("cfl", 1) == calls[j - 1].get("cfl", 1) and bool(calls[j].get("dtl")) == bool(calls[j - 1].get("dtl")):
            n_whole = raws[j - 1]["nit"] + raws[j]["nit"]
            S4 = mk()
            raw, _ = S4.call("solve", S4.f0, float(calls[j].get("cfl", 1)), [], {"maxit": n_whole}, directives=dirs(calls[j]))
            raws.append(raw)
            rels.append({"type": "split", "a": len(raws), "b": j, "c": j + 1})
    return raws, rels, trace


def ctor_monitor_family(D, cn, cn2, prof):
    """constructor-supplied monitors on several solver objects living in one process: each object records its own solves
    only, whatever the other objects do afterwards (monitor outputs are re-read at the END of the family)"""
    A = D.Session(cn, ncell=3, profile=prof, ctor_monitors={"mon": {"type": "residual", "frequency": 2}})
    rawA, _ = A.call("solve", A.f0, 1.0, [], {"maxit": 4})
    B = D.Session(cn2, ncell=3, profile=prof)
    rawB, _ = B.call("solve", B.f0, 1.0, [], {"maxit": 3})
    C = D.Session(cn, ncell=3, profile=prof, ctor_monitors={"mon": {"type": "residual", "frequency": 3}})
    rawC, _ = C.call("solve", C.f0, 1.0, [], {"maxit": 6})
    for S, raw in ((A, rawA), (B, rawB), (C, rawC)):
        S.refresh_mons(raw)
    rawA["freqs_arg"], rawB["freqs_arg"], rawC["freqs_arg"] = [2], [], [3]
    return [rawA, rawB, rawC]


def run(tier):
    from . import driver_obs as D
    from . import c07
    rep = Report("C08", tier)
    rep.rule = ("history = script of <=3 solve/restart calls on ONE solver object (TLC-enumerated on Driver.tla) x integrator "
                "class x dt profile, plus twin runs on fresh objects; non-trivial = distinct (class, profile, script)")
    rep.assumptions = [
        "bitwise equality of fields is decided on exact bit patterns hash-consed to integers by the harness",
        "restart is compared with a whole run only when it continues from the final state returned by the preceding solve",
        "monitor entries appended during the call are judged; output accumulated by design across restart is not"]
    wd = core.scratch("c08")
    gen = os.path.join(wd, "gen.ndjson")
    res = core.tlc("MC_Driver", "MC_Driver_c08.cfg", workers=1, env={"GEN_FILE": gen}, coverage=(tier == "thorough"),
                   timeout=3000)
    core.tlc_must_pass(res, "MC_Driver C08")
    rep.add_tlc("MC_Driver/C08", res)
    scripts = core.read_ndjson(gen)
    rnd = random.Random(core.seed())
    recs, meta = [], {}
    traces = []
    rid = 0
    drift = 0
    for k, sc in enumerate(scripts):
        classes = D.KIND_CLASSES[sc["kind"]]
        if tier == "quick" and len(classes) > 2:
            classes = rnd.sample(classes, 2)
        for cn in classes:
            varies_cfl = any(c.get("cfl", 1) != 1 for c in sc["calls"])
            # a model that declares itself linear invites caching on the solver object (the Jacobian of the implicit classes is):
            # always exercised where the CFL number changes between calls, and for the implicit classes at the thorough tier
            for islin in ((0, 1) if (varies_cfl or (D.KIND_OF[cn] != "onestep" and tier == "thorough")) else (0,)):
                if islin == 1 and sc["prof"] == "var":
                    continue        # a linear model has a state- and time-independent step: only the constant profiles are consistent
                raws, rels, trace = run_script(D, cn, sc, variant=k, islinear=islin)
                rid += 1
                calls = D.project(raws, rid)
                recs.append({"id": rid, "kind": "family", "calls": calls, "rels": rels})
                meta[rid] = (sc, cn, [D.describe(r) for r in raws])
                if trace is not None:
                    trace["id"] = rid
                    traces.append(trace)
                rep.evaluations += len(raws)
                rep.nontrivial.add((cn, sc["prof"], json.dumps(sc["calls"], sort_keys=True), islin))
                # drift against the specification's own outcome of the script
                if cn in ("explicit", "forwardeuler", "rk2", "rk2_heun", "implicit", "backwardeuler", "trapezoidal",
                          "cranknicolson", "gear", "lsrk25bb", "lsrk26bb", "lsrk4"):
                    for c, raw in zip(sc["calls"], raws):
                        got = (raw["nit"], raw["totnit"], raw["tfin"] * D.UNIT, [t * D.UNIT for (t, _, _) in raw["res"]],
                               [i for (_, i, _) in raw["res"]],
                               sorted(i for (_, its, _, _, _) in raw["mons"] for i in its
                                      if raw["op"] == "solve" or i >= raw["totnit"] - raw["nit"]))
                        exp = (c["nit"], c["totnit"], float(c["tfin"]), [float(t) for t in c["rest"]], list(c["resit"]),
                               sorted(c["monit"]))
                        if got != exp:
                            drift += 1
                            if len(rep.drift) < 10:
                                rep.drift.append("cls=%s call=%s code=%s spec=%s" % (cn, json.dumps(
                                    {x: c[x] for x in ("op", "tsave", "tot", "maxit", "freqs")}), got, exp))
                if len(rep.samples) < 3 and len(sc["calls"]) > 1:
                    rep.sample({"class": cn, "profile": sc["prof"], "script": sc["calls"], "relations": rels,
                                "observed": [D.describe(r) for r in raws]})
    # constructor-supplied monitors across solver objects
    for k, (cn, cn2) in enumerate([("explicit", "rk2"), ("rk4", "explicit"), ("gear", "implicit"), ("lsrk25bb", "rk3ssp"),
                                    ("cranknicolson", "gear")]):
        raws = ctor_monitor_family(D, cn, cn2, ["c4", "var"][k % 2])
        rid += 1
        calls = D.project(raws, rid)
        recs.append({"id": rid, "kind": "family", "calls": calls, "rels": []})
        meta[rid] = ({"kind": D.KIND_OF[cn], "prof": "c4", "t0": 0, "calls": [{"op": "solve(ctor monitors)"}] * 3}, cn,
                     [D.describe(r) for r in raws])
        rep.evaluations += len(raws)
    rep.extra["drift_total"] = drift
    # the value objects the driver hands out (fdata / fieldlist): Field.tla, every operation sequence replayed on the real objects
    from . import field_model
    field_model.run(rep, tier, wd)
    # the monitor clause with SYMBOLIC frequency, starting stamp, times and steps (Apalache, bounded in the number of iterations)
    core.apalache_suite(rep, "Apa_Driver", ["InvMonitor"],
                        "model level, beyond the lattice: Apa_Driver.tla checks with Apalache/Z3 that a monitor holds exactly the "
                        "trajectory states whose cumulative iteration number is a multiple of its frequency, for EVERY frequency, "
                        "starting stamp, time and step, over the first %d loop iterations" % (5 if tier == "quick" else 11),
                        timeout=1800, length=6 if tier == "quick" else 12)
    from . import driver_trace
    driver_trace.report(rep, traces, wd, lambda tid: "cls=%s script=%s" % (meta[tid][1], json.dumps(meta[tid][0]["calls"])[:300]))
    # judge
    bad, jr = core.judge("Judge_Driver", recs, wd, name="judge", unjudgeable="C08_unjudgeable")
    rep.add_tlc("Judge_Driver", jr, counts_as_model=False)
    rep.traces += len(recs)
    for b in bad:
        if not b["clause"].startswith("C08"):
            continue       # C07 clauses on these runs are reported by the C07 check
        sc, cn, desc = meta[b["id"]]
        sig = {"cls": cn, "kind": sc["kind"], "ops": "+".join(c["op"] for c in sc["calls"])}
        rec = [r for r in recs if r["id"] == b["id"]][0]
        rep.violation(b["clause"], sig, {"script": sc, "class": cn, "observed": desc, "record": rec})
    return rep.finish()


if __name__ == "__main__":
    sys.exit(run(os.environ.get("VERIF_TIER", "quick")))
