"""C15 2D vs 1D and grid symmetries: FVM2D.tla model checked (transposition, reflection, row-by-row agreement with FVM1D for a
free isotropic flux); the real fvm2dcart judged exactly with the generic table flux and by ulps tokens with the real Euler fluxes."""
import os, random, sys
from . import core
from . import fvm2d_cases as K2, real_cases as RC
from .fvm_check import run_check


def sig_of(r):
    return {"kind": r["kind"], "rel": r.get("rel", ""), "flux": str(r.get("flux", "table")), "recon": str(r.get("recon", "")), "bc": str(r.get("bc", ""))[:60]}


def run(tier):
    rnd = random.Random(core.seed())
    recs = K2.exact2d_cases(rnd, tier) + K2.rows_cases(rnd, tier) + RC.sym2d_cases(rnd, tier) + RC.rows2d_cases(rnd, tier)
    return run_check(
        "C15", tier,
        rule="model: all data on grids up to 3x3 (2 values; 3 values in the thorough tier) x reconstructions x BC tag assignments with "
             "a free isotropic flux; code: table flux (exact rationals) on nx,ny up to 12 with non-square cells, real Euler 2D fluxes "
             "with per/sym/insub/insup(angle)/outsub/outsup on any side (ulps of the residual scale)",
        assumptions=["the free flux is isotropic (x-face flux = y-face flux of the rotated state): checked for the real centered/hlle "
                     "fluxes under C02 (C02_isotropy)",
                     "round-off clause for real fluxes (cos/sin of mirrored angles differ in the last place)"],
        mc_runs=[("MC_FVM2D", "MC_FVM2D_cons.cfg" if tier == "quick" else "MC_FVM2D_cons_f.cfg", 16)],
        groups=[("Judge_FVM2D", recs)], prefixes=["C15"], sig_of=sig_of)


if __name__ == "__main__":
    sys.exit(run(os.environ.get("VERIF_TIER", "quick")))
