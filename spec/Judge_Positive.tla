--------------------------- MODULE Judge_Positive ---------------------------
(***************************************************************************)
(* C10 judge (Trace_Positive): per-iteration observations of REAL first-    *)
(* order solves: sign of the minimum density / pressure / depth and         *)
(* finiteness, for every iteration; plus (exact records) the new middle     *)
(* state of a 3-cell problem compared with Positivity.tla (DRIFT) and its   *)
(* positivity decided exactly on the rational the observed float is         *)
(* identified with.                                                         *)
(***************************************************************************)
EXTENDS Positivity, Json, IOUtils, SequencesExt
Recs == ndJsonDeserialize(IOEnv.JUDGE_IN)
VARIABLES i, bad
FailedRun(r) ==
  {c \in {"C10_density_positive", "C10_pressure_positive", "C10_finite"} :
     ~ CASE c = "C10_density_positive" -> \A k \in 1..Len(r.srho) : r.srho[k] = 1
         [] c = "C10_pressure_positive" -> \A k \in 1..Len(r.sp) : r.sp[k] = 1
         [] c = "C10_finite" -> r.finite = 1}
Eu(w) == [rho |-> FromPair(w[1]), u |-> FromPair(w[2]), c |-> FromPair(w[3])]
Sw(w) == [c |-> FromPair(w[1]), u |-> FromPair(w[2])]
FailedTriple(r) ==
  LET U == VecFrom(r.unew) par == FromPair(r.par) cfl == FromPair(r.cfl) IN
  {c \in {"C10_density_positive", "C10_pressure_positive", "DRIFT_update"} :
     ~ CASE c = "C10_density_positive" -> r.srho = 1 /\ (r.ok = 1 => RSign(U[1]) > 0)
         [] c = "C10_pressure_positive" -> r.sp = 1 /\ (r.ok = 1 => (r.model = "sw" \/ EuPositive(par, U)))
         [] c = "DRIFT_update" ->
              (r.ok = 1 /\ r.spec = 1) =>
                 IF r.model = "sw" THEN U = SwNew(par, r.flux, Sw(r.L), Sw(r.M), Sw(r.R), cfl, {})
                 ELSE (HllOK(par, Eu(r.L), Eu(r.M)) /\ HllOK(par, Eu(r.M), Eu(r.R))) =>
                         U = EuNew(par, r.flux, Eu(r.L), Eu(r.M), Eu(r.R), cfl)}
Failed(r) == CASE r.kind = "run" -> FailedRun(r) [] r.kind = "triple" -> FailedTriple(r)
               [] r.kind = "raised" -> {"C10_raised"} [] OTHER -> {"unknown_record"}
Init == i = 0 /\ bad = <<>>
Step == /\ i < Len(Recs) /\ i' = i + 1
        /\ bad' = bad \o SetToSeq({[id |-> Recs[i'].id, clause |-> c] : c \in Failed(Recs[i'])})
Fin  == /\ i = Len(Recs) /\ ndJsonSerialize(IOEnv.JUDGE_OUT, bad) /\ PrintT(<<"JUDGED", i, Len(bad)>>)
        /\ i' = i + 1 /\ bad' = bad
Next == Step \/ Fin
Spec == Init /\ [][Next]_<<i, bad>>
=============================================================================
