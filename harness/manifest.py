"""writes /verif/MANIFEST.json from one table (run: /venv/bin/python -m harness.manifest)"""
import json, os
from . import core

ASSUME = ("TLC 1.8 + CommunityModules (Json/IOUtils/CSV); CPython/numpy IEEE-754 doubles; the harness projection of "
          "the real code's observations onto integer-only records; bounded instances as stated in the evidence")

CHECKS = {
    "C07": dict(
        technique="TLA+ model checking of the driver state machine (TLC, exhaustive over save lists/stops/kinds) + spec-to-code "
                  "replay of every enumerated scenario into the real solve() + TLC-judged contract + event-trace validation",
        text="Driver.tla models solve/restart/_solve one action per loop stage; TLC checks SolveContract (Contract.tla) on every "
             "bounded scenario; every scenario is replayed through the real solve() of every integrator class via a recording "
             "discretisation and the same contract is evaluated by TLC on what the code returned; the recorded event logs are "
             "validated as behaviours of Driver.tla (Trace_Driver). Scenario spaces: save lists x stop dictionaries x start times "
             "(an instance around the origin of times: start <= 0, stop time exactly 0), multi-call scripts with changing CFL number "
             "and dtlocal directive; the older solve_legacy driver is specified, replayed and trace-validated too (informational).",
        ref="DESIGN.md section 6 C07, section 3.2"),
    "C08": dict(
        technique="TLA+ model checking of call histories on one solver object with explicit hidden state (TLC) + replay of "
                  "every enumerated script into the real integrators + TLC-judged bitwise relations between histories + trace validation",
        text="Hidden solver state (gear's previous increment, counters, it tags, monitor outputs) is explicit in Driver.tla; TLC "
             "checks purity/repeatability/split=whole/monitor invariants over all scripts of <=3 calls; each script is replayed on "
             "the real classes with twin runs on fresh objects, and TLC judges bit-equality relations and monitor records. Calls carry "
             "a CFL multiplier and the dtlocal directive (nothing of an earlier call may reach a later one); Field.tla (heap model "
             "of fdata / fieldlist, invariant NoAlias) is model checked and every enumerated operation sequence is replayed on the "
             "real objects.",
        ref="DESIGN.md section 6 C08"),
}

CHECKS.update({
    "C05": dict(
        technique="TLA+ model checking of the RK stage machines over formal states (TLC) + free-algebra execution of the real "
                  "step() (symbols for the state and for every RHS value) whose realised Butcher tableau TLC judges exactly",
        text="RK.tla states order conditions up to 4, weight/abscissa conditions, Kraaijevanger's SSP test and stability "
             "polynomials on an arbitrary tableau in exact rationals; RKStep.tla model checks the three stage machines of the code; "
             "the real step() of every explicit class is executed on formal symbols, so the tableau read off is valid for every "
             "right-hand side; TLC evaluates the predicates on it.",
        ref="DESIGN.md section 6 C05, section 4.2"),
    "C06": dict(
        technique="TLA+ model checking of the code-shaped theta/xi implicit step with exact rational linear solves (TLC) + "
                  "TLC-judged defining relations on the real integrators with operators read from the code's own rhs",
        text="Implicit.tla models calc_jacobian / calcrhs / solve_implicit / add_res / gear start-up in exact rationals and TLC "
             "checks the defining relations (backward Euler, Crank-Nicolson, BDF2), conservation, no-growth and FD-Jacobian "
             "exactness for every small state, with a scalar step and with per-cell steps (D = diag(dt)); the real classes are bound through "
             "relation residuals on affine operators (direct steps, per-cell dt arrays, and along solve() trajectories), exact "
             "rational amplification factors on dyadic z*dt, norm growth and an entrywise Jacobian comparison. Apa_Implicit.tla lifts the "
             "no-growth clauses of the backward-Euler and Crank-Nicolson factors from the dyadic grid to every rational z with Re z <= 0 "
             "(Apalache, symbolic).",
        ref="DESIGN.md section 6 C06"),
})

CHECKS.update({
    "C12": dict(
        technique="exhaustive exact TLC evaluation of the four limiters (Limiters.tla) on a rational grid + TLC-judged region "
                  "logic on exact float-comparison tokens measured on the real xnum limiters over 300 decades",
        text="Limiters.tla transcribes the limiters in exact rationals and states the second-order TVD region clauses; TLC "
             "enumerates the whole grid (every sign combination, zeros, equal arguments); the real functions are evaluated on the "
             "grid scaled over 1e-150..1e150, random pairs and arrays, and TLC judges zero/sign/bounds/symmetry/oddness/"
             "homogeneity tokens. Apa_Limiters.tla lifts the clauses from the grid to every pair of arguments (Apalache, symbolic, smooth "
             "limiters cross-multiplied); arrays include 2-D, broadcast and strided arguments.",
        ref="DESIGN.md section 6 C12"),
    "C20": dict(
        technique="exhaustive TLC check of mesh partition / 2D connectivity axioms (Mesh.tla) + TLC-judged integer boundary "
                  "tables against the incidence observed from the real 2D reconstruction, exact tokens for 1D constructors",
        text="Mesh.tla gives the uniform/refined face formulas and the 2D numbering (cells row-wise, i-faces then j-faces, four "
             "boundary tables) with the partition axioms as invariants for all small sizes; real constructors are judged on "
             "face counts, monotonicity, span, midpoints, volume sums, zone ratios, and the 2D tables/orientations/normals against "
             "the face-cell incidence observed from extrapol2d1 on cell-index data.",
        ref="DESIGN.md section 6 C20"),
})

CHECKS.update({
    "C01": dict(
        technique="TLA+ model checking of the finite-volume operator with a FREE flux (formal telescoping identity, TLC) + TLC-judged "
                  "exact identities on the real operator run with a generic table flux + TLC-judged ulps tokens for real fluxes and solves",
        text="FVM1D.tla / FVM2D.tla model the rhs pipeline (gradients, periodic closure, reconstruction, boundary states, flux, balance) "
             "over formal flux terms, so conservation is checked as a formal identity for every flux on every small mesh; the real "
             "fvm1d/fvm2dcart are run with a generic dyadic table flux (exact arithmetic, TLC sums the observed residuals) and with "
             "every real model/flux/reconstruction/boundary, and solves with every integrator are judged per run.",
        ref="DESIGN.md section 6 C01, section 4.2"),
    "C02": dict(
        technique="exhaustive TLC evaluation of the transcribed fluxes on exact-point state grids (Fluxes.tla) + TLC-judged real "
                  "numflux values against the exactly computed physical flux and the exactly decided supercritical regime",
        text="Fluxes.tla gives physical and numerical fluxes in exact rationals on exact-point families (rational sound speeds, "
             "square density ratios); TLC checks consistency, mirror symmetry and upwinding on all grid pairs; the real fluxes are "
             "evaluated on the same families (TLC computes the physical flux and the regime exactly) and on random floats over six "
             "decades (ulps tokens), plus locality, power-of-two homogeneity and 2D isotropy. Apa_Fluxes.tla proves the three clauses for "
             "the two-wave HLL, Rusanov, centered and scalar upwind forms with free fluxes, quantities and wave speeds (Apalache).",
        ref="DESIGN.md section 6 C02, section 4.4"),
    "C11": dict(
        technique="TLA+ model checking of reconstructions on all lattice meshes (TLC, exact rationals) + TLC-judged face states "
                  "observed at the numflux seam of the real operators + exact kappa-stencil columns from unit impulses",
        text="FVM1D/FVM2D state constant preservation, linear exactness at interior faces, first-order copies and the circulant "
             "kappa stencil as invariants; the real reconstructions' face states are captured where the model receives them and "
             "compared exactly (dyadic regime) or within round-off, and the operator on unit impulses is compared with the stencil. "
             "Apa_Recon.tla lifts linear exactness (k-schemes for every k, MUSCL with any idempotent limiter) to every non-uniform mesh "
             "and every linear profile, and the kappa stencil with its moment (order) conditions to every data set and every k "
             "(Apalache, symbolic).",
        ref="DESIGN.md section 6 C11"),
    "C14": dict(
        technique="TLA+ model checking of shift equivariance of the free-flux periodic operators in 1D and 2D (TLC, all data x all "
                  "shifts) + TLC-judged exact shifted residuals of the real operators (table flux) + ulps tokens on real solves",
        text="Pure index algebra: TLC enumerates all data and shifts on N<=5 (1D) and grids up to 4x2/3x3 including nx or ny = 1,2,3; "
             "the real operators with the generic table flux give dyadic residuals that TLC compares exactly with the rolled "
             "residual; real models, fluxes and integrators are compared on rolled initial data. Apa_Recon.tla proves the seam "
             "distance of the periodic gradient origin independent and equal to the interior distance on every uniform mesh "
             "(Apalache, symbolic).",
        ref="DESIGN.md section 6 C14"),
    "C15": dict(
        technique="TLA+ model checking of transposition / reflection / row-wise 1D agreement of the 2D free-flux operator (TLC) + "
                  "TLC-judged exact relations on the real fvm2dcart with a table flux + ulps tokens with the real Euler fluxes",
        text="FVM2D.tla is checked against FVM1D.tla row by row and against its own transposed and mirrored instances for all small "
             "grids and BC tag assignments; the real 2D operator is bound exactly (table flux, non-square cells, nx != ny) and with "
             "centered/hlle under per/sym/insub/insup(angle)/outsub/outsup on any side.",
        ref="DESIGN.md section 6 C15"),
})

CHECKS.update({
    "C03": dict(
        technique="TLA+ model checking that uniform data give the empty formal residual for every compatible boundary pair (TLC, "
                  "FVM1D/FVM2D with a free flux) + TLC-judged residual / solve tokens of the real code on uniform states",
        text="With a free flux the residual of uniform data vanishes structurally iff reconstructions return the cell value and "
             "boundary states equal the interior state: invariants InvConst/InvConst2 on all small meshes; the real operators are run "
             "on uniform states over Mach -2.2..3, six decades, every flux/reconstruction/matching boundary pair (parameters from the "
             "code's own nameddata), every integrator with and without dtlocal, the nozzle at rest with non-trivial sections, 2D angles.",
        ref="DESIGN.md section 6 C03"),
    "C13": dict(
        technique="TLA+ model checking of reflection equivariance of the free-flux operator (formal mirror of every flux term, TLC) + "
                  "TLC-judged problem-vs-twin comparisons of the real code (mirror: ulps; power-of-two units: bitwise)",
        text="InvMirror on all lattice meshes x reconstructions x BC pairs exposes any left/right asymmetry of gradients, "
             "reconstruction or boundary treatment at design level; the real code is run on random problems (all models, fluxes, "
             "reconstructions, every Euler/SW boundary type on either side, all integrators) and on their mirror / rescaled twins.",
        ref="DESIGN.md section 6 C13"),
    "C19": dict(
        technique="TLC-judged difference of two real space operators (with and without sources) with recording source callables + "
                  "exact-arithmetic judgement of the operator's source stage (table flux records) + exact definition of the nozzle term",
        text="Sources are observed at the source[i](x, Q) seam (arguments and values); TLC judges rhs_with - rhs_without against the "
             "recorded source on its own equation and zero elsewhere, for all subsets of equations and source shapes, for euler1d, "
             "shallow water and the nozzle (user + geometric sources); the geometric term is compared with its definition.",
        ref="DESIGN.md section 6 C19"),
})

CHECKS.update({
    "C09": dict(
        technique="exhaustive TLA+ model checking of the scalar schemes in exact rationals (TLC: all integer data x limiters x SSP "
                  "integrators x CFL) + TLC-judged per-iteration fields of real solves (exact dyadic runs validated step by step "
                  "against the specification, ulps tokens on random runs)",
        text="Scalar.tla advances convection and Burgers with the real reconstruction/flux/integrator algebra in exact rationals; "
             "TLC checks maximum principle, TVD and mean conservation on every data set of the lattice; the real solve is run on the same "
             "integer data (exact floats: TLC evaluates max/min/TV on the observed fields and checks each transition is a step of the "
             "specification) and on random/step/sawtooth data up to N=200. Apa_Scalar.tla proves the local maximum principle of one "
             "Euler step of convection for every data set, every Courant number <= 1/2 and any limiter value in the region of C12 "
             "(Apalache, symbolic).",
        ref="DESIGN.md section 6 C09"),
    "C10": dict(
        technique="TLA+ model checking of the one-step positivity induction over ALL triples of an exact-point state grid (TLC) + "
                  "spec-to-code replay of triples as 3-cell problems + TLC-judged per-iteration positivity of random strong-jump runs",
        text="The first-order update of a cell depends on three cells: Positivity.tla enumerates all triples (shallow water: depth "
             "ratios to 900, Froude to 3; Euler: exact-point sub-grid), both fluxes, CFL 1/4 and 1/2, periodic and wall closures; sampled "
             "triples go through the real solve (new state identified with a rational and compared with the specification); random "
             "piecewise-constant runs with ratios to 1e3 are judged at every iteration.",
        ref="DESIGN.md section 6 C10"),
    "C16": dict(
        technique="TLC evaluation of the boundary conditions' DEFINING predicates (Vars.tla, exact rationals) on states returned by the "
                  "real namedBC + ulps tokens of the defining quantities on random states, both sides / four sides",
        text="Vars.tla states what each Euler boundary condition must satisfy (imposed totals, pressure, copied quantities, direction, "
             "Rankine-Hugoniot relations, wall reversal) and TLC checks them exactly on returned states that are small rationals "
             "(gamma 3/2, 2) and, at model level, that they reduce to the interior state for matching parameters; random states over "
             "six decades, every condition, dir = -1/+1, euler2d on all sides with the insup angle, shallow water, dirichlet. "
             "Apa_RH.tla proves the Rankine-Hugoniot relations of 'outsub_rh' for every state, pressure and gamma (Apalache, symbolic).",
        ref="DESIGN.md section 6 C16"),
    "C17": dict(
        technique="TLA+ model checking of variable definitions and ideal-gas identities in exact rationals (TLC) + TLC-judged values of "
                  "every name in list_var() against its definition (exact rationals / ulps), shapes, round trips, bitwise homogeneity",
        text="Vars.tla defines every named variable and the internal identities; TLC compares the real nameddata values with the "
             "definitions exactly for gamma = 3/2, 2 and by ulps over 12 decades otherwise, for euler1d, nozzle, euler2d, shallow water, "
             "convection and Burgers, with shape (one value per cell) and power-of-two homogeneity tokens.",
        ref="DESIGN.md section 6 C17"),
    "C18": dict(
        technique="exact TLC check of the eigen-relations of the physical flux Jacobian (spectral radius) + TLC-judged calc_timestep "
                  "values (exact rationals on exact points, ulps, bitwise linearity, locality) + driver observation with per-cell dt",
        text="Fluxes.tla proves on every grid state that |u|+c is the spectral radius of the analytic Jacobian of the specification's own "
             "physical flux; the real calc_timestep is compared with cfl*h/(|u|+c) for all six models (2D cell size dx dy/(dx+dy)), and "
             "the driver is run with a non-uniform per-cell dt and rhs == 1 so that time and data increments are the step sizes.",
        ref="DESIGN.md section 6 C18"),
})

NOT_YET = "check not built yet in this round (work in progress; see DESIGN.md section 6 for the planned TLA+ model and binding)"
NOT_APPLICABLE = {
    "C04": "asymptotic convergence order against irrational exact solutions over mesh sequences: no finite-state exact-arithmetic "
           "TLA+ model applies; the algebraic parts are decided under C05/C06/C11/C02 (DESIGN.md section 7)",
}


def main():
    props = [json.loads(l)["id"] for l in open(os.path.join(core.VERIF, "properties.jsonl"))]
    checks = []
    for pid in props:
        if pid not in CHECKS:
            continue
        c = CHECKS[pid]
        checks.append({
            "property_id": pid,
            "quick_cmd": "./check %s --tier quick" % pid,
            "thorough_cmd": "./check %s --tier thorough" % pid,
            "evidence_file": "evidence/%s.json" % pid,
            "replay_cmd_template": "./check %s --replay {path}" % pid,
            "engine": "tlc",
            "level_claimed": {"category": "model_checking", "text": c["text"], "design_ref": c["ref"]},
            "level_note": ASSUME,
            "technique": c["technique"],
        })
    na = []
    for pid in props:
        if pid in CHECKS:
            continue
        na.append({"property_id": pid, "reason": NOT_APPLICABLE.get(pid, NOT_YET)})
    man = {
        "version": 1,
        "setup_cmd": "./check --selftest",
        "hooks": {"guard": "FLOWDYN_VERIF", "enable": "no source hook is needed: the real code is observed through its public "
                  "protocol seams (recording discretisation / recording model / subclassed step); FLOWDYN_VERIF is reserved",
                  "baseline_off_cmd": "cd /repo && /venv/bin/python -m pytest -ra -q -p no:cacheprovider --timeout=900 "
                                      "--continue-on-collection-errors",
                  "source_commits": [], "add_only": True},
        "engines": [{"name": "tlc", "path": "/usr/local/bin/tlc", "serves_properties": sorted(CHECKS),
                     "kind_free_text": "TLC 1.8 explicit-state model checker on the TLA+ modules under /verif/spec; Python harness "
                                       "under /verif/harness binds them to the real code"},
                    {"name": "apalache", "path": "/usr/local/bin/apalache-mc", "serves_properties": ["C02", "C06", "C07", "C08", "C09", "C10", "C12", "C17", "C18", "C20"],
                     "kind_free_text": "Apalache 0.58 symbolic model checker (Z3) on /verif/spec/Apa_*.tla: the algebraic clauses for "
                                       "every argument (Init => Inv over unconstrained integers); an addition to the TLC instances "
                                       "of the same clauses, inconclusive runs are recorded and tolerated"}],
        "checks": checks,
        "not_applicable": na,
        "notes": "Model-based verification with an explicit TLA+ specification (see DESIGN.md). Exit codes: 0 held, 1 VIOLATION, "
                 "2 machinery failure. known_findings.json lists repaired and recorded defects.",
    }
    with open(os.path.join(core.VERIF, "MANIFEST.json"), "w") as f:
        json.dump(man, f, indent=1)
    import jsonschema
    jsonschema.validate(man, json.load(open("/root/.vp/MANIFEST.schema.json")))
    sch = json.load(open("/root/.vp/EVIDENCE.schema.json"))
    for c in checks:
        p = os.path.join(core.VERIF, c["evidence_file"])
        if os.path.exists(p):
            jsonschema.validate(json.load(open(p)), sch)
    print("MANIFEST.json written: %d checks, %d not_applicable" % (len(checks), len(na)))


if __name__ == "__main__":
    main()
