"""C16 boundary states: the defining conditions of every Euler boundary condition (Vars.tla) evaluated by TLC on the states
returned by the REAL namedBC -- exactly where the returned state is a small rational (gamma = 3/2, 2), by ulps tokens on
random interior states / parameters, both sides (dir = -1, +1), all four sides in 2D; shallow-water sym/inf; dirichlet."""
import math, os, random, sys
from fractions import Fraction
import numpy as np
from . import core, fd
from .fvm_check import run_check
from .c17 import definition

F = Fraction



def primed_bc(model, name, dir_, data, prm):
    """the judged boundary call, preceded on the SAME model object by sibling calls: each parameter changed in turn (all others
    equal), another interior state, the other side.  A boundary state is a function of (side, interior state, parameters) and of
    nothing the model object remembers from earlier calls"""
    with np.errstate(all="ignore"):
        # ONE dictionary object, rewritten in place between the calls, as a parameter sweep does (and as the space operator does:
        # it hands the user's own dictionary to the model at every evaluation)
        for key, val in list(prm.items()):
            if key == "type":
                continue
            if isinstance(val, (int, float)):
                prm[key] = val * 1.07 + (0.01 if val == 0 else 0.0)
            elif isinstance(val, (list, tuple)):
                prm[key] = [v * 1.07 for v in val]
            else:
                continue
            try:
                model.namedBC(name, dir_, [np.array(d, dtype=float, copy=True) for d in data], prm)
            except Exception:
                pass
            prm[key] = val
        try:
            model.namedBC(name, dir_, [np.array(d, dtype=float, copy=True) * 1.05 for d in data], dict(prm))
            model.namedBC(name, -dir_ if np.isscalar(dir_) else -np.asarray(dir_), [np.array(d, dtype=float, copy=True) for d in data], dict(prm))
        except Exception:
            pass
        return model.namedBC(name, dir_, data, prm)

def base(**kw):
    r = dict(kind="bc", toks=[0], dirok=1, exact=0, gam=[3, 2], I=[[1, 1], [0, 1], [1, 1]], B=[[1, 1], [0, 1], [1, 1]],
             prm=[[1, 1], [1, 1], [1, 1]], bc="", dir=1, model="euler1d")
    r.update(kw)
    return r


def q(name, gam, W):
    return definition(name, gam, W[0], W[1], W[2])


def u_tok(a, b, scale):
    return core.ulps(a, b, scale) if (math.isfinite(a) and math.isfinite(b)) else core.ULP_CAP


def rationals(vals, bound=512):
    out = []
    for v in vals:
        if not math.isfinite(v):
            return None
        fr = F(v).limit_denominator(bound)
        if abs(fr.numerator) > 4000 or core.ulps(v, fr, max(abs(v), 1e-300)) > 64:
            return None
        out.append(core.rat(fr))
    return out


def operator_bc(model, name, dir_, I, prm):
    """the boundary state as the space operator obtains it (dispatch by name, direction and parameters inside fvm.rhs): a 3-cell
    problem with the interior state next to the side under test, other states elsewhere, an imposed state on the opposite side;
    read back from the face arrays of the operator"""
    m = fd.uniform(3, length=1.0)
    other = [I[0] * 1.7, -0.4 * I[1] + 0.1, I[2] * 0.6]
    cells = [I, other, other] if dir_ == -1 else [other, other, I]
    prim = [np.array([float(cl[k]) for cl in cells]) for k in range(3)]
    side = dict(prm, type=name)
    opp = {"type": "dirichlet", "prim": [float(x) for x in other]}
    disc = fd._real_modeldisc.fvm(model, m, fd.recon("extrapol1"), numflux="centered",
                                  bcL=side if dir_ == -1 else opp, bcR=opp if dir_ == -1 else side)
    f = fd.field.fdata(model, m, model.prim2cons(prim))
    disc.rhs(f)
    if dir_ == -1:
        return [np.array([disc.pL[k][0]]) for k in range(3)], tuple(float(disc.pR[k][0]) for k in range(3))
    return [np.array([disc.pR[k][m.ncell]]) for k in range(3)], tuple(float(disc.pL[k][m.ncell]) for k in range(3))


def euler1d_records(rnd, tier):
    recs = []
    names = ["insub", "insub_cbc", "insup", "outsub", "outsub_prim", "outsub_qtot", "outsub_rh", "outsub_nrcbc", "outsup", "sym", "dirichlet"]
    ncase = 40 if tier == "quick" else 500
    for c in range(ncase):
        for name in names:
            for dir_ in (-1, 1):
                exact = c % 3 == 0
                gam = rnd.choice([1.5, 2.0]) if exact else rnd.choice([1.4, 5.0 / 3.0, 1.2, 2.0])
                model = fd.euler.euler1d(gamma=gam)
                if exact:
                    rho, p = rnd.choice([0.5, 1.0, 2.0]), rnd.choice([0.5, 1.0, 2.0])
                else:
                    rho, p = 10.0 ** rnd.uniform(-3, 3), 10.0 ** rnd.uniform(-3, 3)
                a = math.sqrt(gam * p / rho)
                sup = name in ("insup", "outsup")
                mach = rnd.uniform(1.2, 3.0) if sup else rnd.uniform(0.05, 0.9)
                inflow = name.startswith("in")
                # flow direction: inlets take flow entering (u * dir < 0), outlets flow leaving; sym / dirichlet any
                s = -dir_ if inflow else dir_
                if name in ("sym", "dirichlet"):
                    s = rnd.choice([1, -1])
                    mach = rnd.uniform(0.0, 2.5)
                u = s * mach * a
                if exact:
                    u = s * rnd.choice([0.25, 0.5, 1.0]) * (3.0 if sup else 1.0)
                I = (rho, u, p)
                ptI, rtI = q("ptot", gam, I), q("rttot", gam, I)
                prm = {}
                if name in ("insub", "insub_cbc"):
                    # stays a subsonic inflow (the characteristic inlet reverses the flow when the imposed total temperature
                    # is below what the outgoing invariant of the interior state allows: outside its regime)
                    prm = {"ptot": ptI * rnd.uniform(1.0, 1.3), "rttot": rtI * rnd.uniform(1.0 if name == "insub_cbc" else 0.95, 1.1)}
                    if exact and name == "insub":
                        prm = {"ptot": p * rnd.choice([1.5, 2.0, 4.0]), "rttot": rnd.choice([0.5, 1.0, 2.0])}
                elif name == "insup":
                    prm = {"ptot": ptI * rnd.uniform(0.8, 1.3), "rttot": rtI * rnd.uniform(0.8, 1.3), "p": p * rnd.uniform(0.7, 1.2)}
                    if prm["ptot"] <= prm["p"] * 2.0:
                        prm["ptot"] = prm["p"] * 4.0
                elif name.startswith("outsub"):
                    prm = {"p": p * rnd.uniform(0.7, min(1.3, 0.97 * ptI / p))}      # back pressure below the total pressure
                    if exact:
                        prm = {"p": rnd.choice([x for x in (0.25, 0.5, 1.0, 2.0) if x < 0.97 * ptI] or [p])}
                elif name == "dirichlet":
                    prm = {"prim": [rho * 1.3, -u * 0.5, p * 0.7]}
                # the user's dictionary may carry keys this condition does not use (one dictionary switched between condition
                # types; "'p' will be ignored if unused"): decoy values for every key of the family that is not this condition's own
                if c % 2 == 1:
                    for k_, v_ in (("p", p * 0.37), ("ptot", ptI * 2.9), ("rttot", rtI * 0.61), ("angle", 33.0)):
                        prm.setdefault(k_, v_)
                try:
                    with np.errstate(all="ignore"):
                        if c % 4 == 2 and not exact:
                            # one case in four: through the operator (the interior state is the one the operator presents: the
                            # round trip of I through the conservative variables)
                            out, I = operator_bc(model, name, dir_, I, prm)
                            rho, u, p = I
                            a = math.sqrt(gam * p / rho)
                            ptI, rtI = q("ptot", gam, I), q("rttot", gam, I)
                        else:
                            out = primed_bc(model, name, dir_, [np.array([x]) for x in I], dict(prm, type=name))
                    B = tuple(float(np.ravel(x)[0]) for x in out)
                except Exception as ex:
                    recs.append(dict(kind="raised", what="%s: %s" % (type(ex).__name__, str(ex)[:100]), model="euler1d", bc=name))
                    continue
                r = base(bc=name, dir=dir_, model="euler1d")
                ok = all(math.isfinite(x) for x in B) and B[0] > 0 and B[2] > 0
                toks = []
                if not ok:
                    toks = [core.ULP_CAP]
                else:
                    aB = math.sqrt(gam * B[2] / B[0])
                    vs = max(abs(u), a, abs(B[1]), aB)
                    if name in ("insub", "insub_cbc", "insup"):
                        toks += [u_tok(q("ptot", gam, B), prm["ptot"], prm["ptot"]), u_tok(q("rttot", gam, B), prm["rttot"], prm["rttot"])]
                        r["dirok"] = 1 if B[1] * dir_ <= 0 else 0
                    if name == "insub":
                        toks.append(0 if B[2] == p else u_tok(B[2], p, p))
                    if name == "insup":
                        toks.append(u_tok(B[2], prm["p"], prm["p"]))
                    if name == "insub_cbc":       # outgoing Riemann invariant u + dir 2a/(gamma-1)
                        toks.append(u_tok(B[1] + dir_ * 2 * aB / (gam - 1), u + dir_ * 2 * a / (gam - 1), vs * 2 / (gam - 1)))
                    if name in ("outsub", "outsub_prim"):
                        toks += [0 if (B[0] == rho and B[1] == u) else core.ULP_CAP, u_tok(B[2], prm["p"], prm["p"])]
                    if name == "outsub_qtot":
                        toks += [u_tok(q("ptot", gam, B), ptI, ptI), u_tok(q("rttot", gam, B), rtI, rtI), u_tok(B[2], prm["p"], prm["p"])]
                        r["dirok"] = 1 if B[1] * dir_ >= 0 else 0
                    if name == "outsub_nrcbc":    # entropy and the OUTGOING invariant u + dir 2a/(gamma-1) are kept, pressure imposed
                        toks += [u_tok(B[2] / B[0] ** gam, p / rho ** gam, p / rho ** gam), u_tok(B[2], prm["p"], prm["p"]),
                                 u_tok(B[1] + dir_ * 2 * aB / (gam - 1), u + dir_ * 2 * a / (gam - 1), vs * 2 / (gam - 1))]
                    if name == "outsub_rh":       # the three Rankine-Hugoniot relations across a discontinuity of speed Ws
                        toks.append(u_tok(B[2], prm["p"], prm["p"]))
                        if B[0] != rho:
                            Ws = (B[0] * B[1] - rho * u) / (B[0] - rho)
                            m0, m1 = rho * (u - Ws), B[0] * (B[1] - Ws)
                            toks.append(u_tok(m0, m1, max(abs(rho * Ws), abs(rho * u), rho * a)))
                            toks.append(u_tok(m0 * (u - Ws) + p, m1 * (B[1] - Ws) + B[2], max(p, B[2], abs(m0 * (u - Ws)))))
                            h0, h1 = gam / (gam - 1) * p / rho, gam / (gam - 1) * B[2] / B[0]
                            toks.append(u_tok(h0 + 0.5 * (u - Ws) ** 2, h1 + 0.5 * (B[1] - Ws) ** 2, max(h0, h1, (u - Ws) ** 2)))
                        else:
                            toks.append(0 if (B[1] == u and B[2] == p) else core.ULP_CAP)
                    if name == "outsup":
                        toks.append(0 if B == I else core.ULP_CAP)
                    if name == "sym":
                        toks.append(0 if (B[0] == rho and B[1] == -u and B[2] == p) else core.ULP_CAP)
                    if name == "dirichlet":
                        toks.append(0 if list(B) == [float(x) for x in prm["prim"]] else core.ULP_CAP)
                # "on either side of the domain": the state returned for the other side and the mirrored interior state (same
                # parameters; a Dirichlet velocity mirrored too) is the mirror image of this one
                if ok:
                    try:
                        mprm = dict(prm, type=name)
                        if name == "dirichlet":
                            mprm["prim"] = [prm["prim"][0], -prm["prim"][1], prm["prim"][2]]
                        with np.errstate(all="ignore"):
                            om = model.namedBC(name, -dir_, [np.array([rho]), np.array([-u]), np.array([p])], mprm)
                        Bm = tuple(float(np.ravel(x)[0]) for x in om)
                        vsm = max(abs(u), a, abs(B[1]))
                        toks += [u_tok(Bm[0], B[0], B[0]), u_tok(-Bm[1], B[1], vsm), u_tok(Bm[2], B[2], B[2])]
                    except Exception:
                        toks.append(core.ULP_CAP)
                r["toks"] = toks or [0]
                if exact and ok and name in ("insub", "insup", "outsub", "outsub_prim", "outsub_qtot", "outsup", "sym"):
                    rb, ri = rationals(B), rationals(I)
                    pv = rationals([prm.get("ptot", 1.0), prm.get("rttot", 1.0), prm.get("p", 1.0)])
                    if rb and ri and pv:
                        r.update(exact=1, gam=core.rat(F(gam)), I=ri, B=rb, prm=pv)
                r["regime"] = "exact" if exact else "float"
                r["floats"] = dict(I=[repr(x) for x in I], B=[repr(x) for x in B], prm={k: repr(v) for k, v in prm.items() if k != "prim"}, gamma=repr(gam))
                recs.append(r)
    return recs


def other_records(rnd, tier):
    recs = []
    for c in range(20 if tier == "quick" else 200):
        # 2D Euler: all four sides
        gam = rnd.choice([1.4, 5.0 / 3.0])
        model = fd.euler.euler2d(gamma=gam)
        m = fd.mesh2d.mesh2d(3, 2)
        for tag in ("left", "right", "bottom", "top"):
            dirn_raw = m.normal_of_bc(tag)                     # handed to namedBC exactly as the space operator does
            dirn = np.asarray(dirn_raw, dtype=float)
            k = dirn.shape[1]
            nvec = dirn[:, 0]
            rho, p = 10.0 ** rnd.uniform(-2, 2), 10.0 ** rnd.uniform(-2, 2)
            a = math.sqrt(gam * p / rho)
            for name in ("sym", "insub", "insup", "outsub", "outsup"):
                sup = name in ("insup", "outsup")
                mach = rnd.uniform(1.2, 2.5) if sup else rnd.uniform(0.1, 0.8)
                s = -1.0 if name.startswith("in") else 1.0
                vt = rnd.uniform(-0.3, 0.3) * a
                tvec = np.array([-nvec[1], nvec[0]])
                V = s * mach * a * nvec + vt * tvec
                I = [np.full(k, rho), np.vstack([np.full(k, V[0]), np.full(k, V[1])]), np.full(k, p)]
                ptI = definition("ptot", gam, rho, (V[0], V[1]), p, twod=True)
                rtI = definition("rttot", gam, rho, (V[0], V[1]), p, twod=True)
                prm = {"type": name}
                if name == "insub":
                    prm.update(ptot=ptI * 1.2, rttot=rtI * 1.1)
                if name == "insup":
                    prm.update(ptot=ptI * 1.1, rttot=rtI * 0.9, p=p * 0.9)
                    if c % 2:
                        # inflow direction given by an angle (measured from +x), kept pointing into the domain for this side
                        inward = {"left": 0.0, "right": 180.0, "bottom": 90.0, "top": -90.0}[tag]
                        prm["angle"] = inward + rnd.choice([20.0, -35.0])
                if name == "outsub":
                    prm.update(p=p * 0.9)
                try:
                    with np.errstate(all="ignore"):
                        out = primed_bc(model, name, dirn_raw, I, prm)
                    Brho, BV, Bp = float(np.ravel(out[0])[0]), (float(out[1][0][0]), float(out[1][1][0])), float(np.ravel(out[2])[0])
                except Exception as ex:
                    recs.append(dict(kind="raised", what="%s: %s" % (type(ex).__name__, str(ex)[:100]), model="euler2d", bc=name))
                    continue
                r = base(bc=name, dir=1, model="euler2d", side=tag)
                toks = []
                vn, vtB = BV[0] * nvec[0] + BV[1] * nvec[1], BV[0] * tvec[0] + BV[1] * tvec[1]
                if name == "sym":
                    vnI = V[0] * nvec[0] + V[1] * nvec[1]
                    toks += [0 if (Brho == rho and Bp == p) else core.ULP_CAP, u_tok(vn, -vnI, a), u_tok(vtB, vt, a)]
                elif name in ("insub", "insup"):
                    toks += [u_tok(definition("ptot", gam, Brho, BV, Bp, twod=True), prm["ptot"], prm["ptot"]),
                             u_tok(definition("rttot", gam, Brho, BV, Bp, twod=True), prm["rttot"], prm["rttot"])]
                    toks.append(u_tok(Bp, p if name == "insub" else prm["p"], p))
                    r["dirok"] = 1 if vn <= 0 else 0
                    if "angle" in prm:
                        ang = math.radians(prm["angle"])
                        sp = math.hypot(BV[0], BV[1])
                        toks += [u_tok(BV[0], sp * math.cos(ang), sp), u_tok(BV[1], sp * math.sin(ang), sp)]
                    else:
                        toks.append(u_tok(vtB, 0.0, a))          # enters along the normal
                elif name == "outsub":
                    toks += [0 if (Brho == rho and BV == (float(V[0]), float(V[1]))) else core.ULP_CAP, u_tok(Bp, prm["p"], prm["p"])]
                else:
                    toks.append(0 if (Brho == rho and BV == (float(V[0]), float(V[1])) and Bp == p) else core.ULP_CAP)
                r["toks"] = toks
                recs.append(r)
        # shallow water
        sw = fd.sw.shallowwater1d(g=9.81)
        h, u = 10.0 ** rnd.uniform(-2, 2), rnd.uniform(-3, 3)
        for name, want in (("sym", (h, -u)), ("inf", (h, u))):
            for dir_ in (-1, 1):
                out = primed_bc(sw, name, dir_, [np.array([h]), np.array([u])], {"type": name})
                got = (float(np.ravel(out[0])[0]), float(np.ravel(out[1])[0]))
                recs.append(base(bc=name, dir=dir_, model="shallowwater", toks=[0 if got == want else core.ULP_CAP]))
        # dirichlet for every model
        for mk, mod, prim in (("convection", fd.conv.model(1.0), [0.7]), ("burgers", fd.burgers.model(), [-1.2]),
                              ("shallowwater", sw, [2.0, 0.3]), ("euler2d", model, [1.0, [0.1, 0.2], 2.0])):
            out = mod.namedBC("dirichlet", 1, [np.array([0.0])] * len(prim), {"type": "dirichlet", "prim": prim})
            recs.append(base(bc="dirichlet", model=mk, toks=[0 if list(out) == list(prim) else core.ULP_CAP]))
    return recs


def sig_of(r):
    return {"kind": r["kind"], "model": r.get("model", ""), "bc": r.get("bc", ""), "dir": r.get("dir", 0)}


def run(tier):
    rnd = random.Random(core.seed())
    recs = euler1d_records(rnd, tier) + other_records(rnd, tier)
    return run_check(
        "C16", tier,
        rule="model: the boundary formulas' defining predicates on a grid of rational states, gamma in {3/2, 2} (Vars.tla: reduction to "
             "the interior state, wall flux cancellation); code: namedBC of every Euler condition x dir = -1, +1 x random interior "
             "states (6 decades, sub/supersonic within the condition's regime) x random parameters, defining quantities measured on the "
             "returned state; exact rational judgement for gamma = 3/2, 2; euler2d on all four sides incl. insup angle; shallow-water "
             "sym/inf; dirichlet for every model",
        assumptions=["'outgoing' invariant at a boundary with outward normal dir: u + dir * 2a/(gamma-1) (characteristic speed dir*u + a > 0)",
                     "total quantities of the returned state are evaluated by the harness from the property's definitions (C17)",
                     "TLC integers are 32 bit: exact records only where the returned state is a small rational"],
        mc_runs=[("MC_Vars", "MC_Vars.cfg" if tier == "quick" else "MC_Vars_f.cfg", 4)],
        groups=[("Judge_Model", recs)], prefixes=["C16"], sig_of=sig_of,
        symbolic=("Apa_RH", ["InvDefined", "InvMomentum", "InvEnergy", "InvCompression", "InvIdentity"],
                  "model level, beyond the grid: Apa_RH.tla proves with Apalache/Z3 that the formulas of 'outsub_rh' (shock Mach number, "
                  "density ratio, velocity behind the shock) satisfy the Rankine-Hugoniot mass, momentum and energy relations for EVERY "
                  "interior state, imposed pressure and rational gamma > 1, are defined for all of them, give a compression shock with "
                  "a density ratio below (g+1)/(g-1) when the imposed pressure exceeds the interior one and the interior state itself "
                  "when the two are equal"))


if __name__ == "__main__":
    sys.exit(run(os.environ.get("VERIF_TIER", "quick")))
