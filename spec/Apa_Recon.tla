----------------------------- MODULE Apa_Recon -----------------------------
(***************************************************************************)
(* C11 for ALL meshes, ALL linear profiles, ALL data and ALL k (symbolic,   *)
(* Apalache + Z3), where FVM1D.tla enumerates lattice meshes and a finite   *)
(* set of kappa values.                                                     *)
(*                                                                         *)
(* The reconstruction as flowdyn computes it (modeldisc.calc_grad,          *)
(* xnum.extrapolk / extrapol2 / muscl):                                     *)
(*   face gradient   g_j = (q_j - q_{j-1}) / (xc_j - xc_{j-1})              *)
(*   left  state of face i+1:                                               *)
(*        q_i + ((1-k) g_i + (1+k) g_{i+1}) / 2 * (xf_{i+1} - xc_i)         *)
(*   right state of face i:                                                 *)
(*        q_i + ((1-k) g_{i+1} + (1+k) g_i) / 2 * (xf_i - xc_i)             *)
(*   muscl: the bracket replaced by limiter(g_{i+1}, g_i), any limiter      *)
(*   with limiter(a, a) = a (Limiters.tla: Idempotent)                      *)
(*   periodic seam gradient: (q_0 - q_{N-1}) / (xc_0 + length - xc_{N-1})   *)
(*                                                                         *)
(* Integers only: faces F0 < F1 < F2 < F3 are integers (any rational mesh   *)
(* scales to one), doubled centres C_i = F_i + F_{i+1}, doubled data        *)
(* Q_i = 2 q_i = s C_i + 2 c for the profile p(x) = s x + c, k = kn / kd.   *)
(* A face gradient is the (unique) solution of its defining relation        *)
(* g (C_j - C_{j-1}) = Q_j - Q_{j-1}; equalities are multiplied by 4 kd.    *)
(*                                                                         *)
(* Clauses                                                                  *)
(*   InvLinearK     both face states of the middle cell of a non-uniform    *)
(*                  mesh equal the profile at the face, for every k         *)
(*   InvLinearMuscl the same for MUSCL with any idempotent limiter          *)
(*   InvConstant    constant data: face states = cell value (any k, any     *)
(*                  limiter value that vanishes with its arguments)         *)
(*   InvSeam        the seam distance used for the periodic gradient is     *)
(*                  half the sum of the two end cells, whatever the origin  *)
(*   InvStencil     uniform mesh, upwind flux a = +1, ANY data: the         *)
(*                  residual is the circulant kappa stencil of FVM1D.tla    *)
(*                  (KappaStencil), for every k; InvStencilMirror: for      *)
(*                  a = -1 (right states) it is the mirror image            *)
(*   InvMoments     that stencil annihilates constants, differentiates      *)
(*                  linear data exactly and has no second-moment error for  *)
(*                  EVERY k (second order); its third moment vanishes       *)
(*                  exactly when k = 1/3 (extrapol3)                        *)
(* Teeth (must be refuted): InvBadSeam (seam distance xc_0 + xf_N - xc_N-1, *)
(* which assumes an origin at 0: seeded changes C11/C14 seam_distance),     *)
(* InvBadStencil (km and kp exchanged: seeded C15c), InvBadThird (third     *)
(* order claimed for every k), InvBadWidthGrad (gradient divided by the     *)
(* cell width instead of the centre distance: exact on uniform meshes only) *)
(***************************************************************************)
EXTENDS Integers
VARIABLES
  \* @type: Int;
  f0,
  \* @type: Int;
  f1,
  \* @type: Int;
  f2,
  \* @type: Int;
  f3,
  \* @type: Int;
  s,
  \* @type: Int;
  c,
  \* @type: Int;
  kn,
  \* @type: Int;
  kd,
  \* @type: Int;
  g1,
  \* @type: Int;
  g2,
  \* @type: Int;
  phi,
  \* @type: Int;
  u0,
  \* @type: Int;
  u1,
  \* @type: Int;
  u2,
  \* @type: Int;
  u3

Init == /\ f0 \in Int /\ f1 \in Int /\ f2 \in Int /\ f3 \in Int /\ s \in Int /\ c \in Int /\ kn \in Int /\ kd \in Int
        /\ g1 \in Int /\ g2 \in Int /\ phi \in Int /\ u0 \in Int /\ u1 \in Int /\ u2 \in Int /\ u3 \in Int
Next == UNCHANGED <<f0, f1, f2, f3, s, c, kn, kd, g1, g2, phi, u0, u1, u2, u3>>

Mesh == f0 < f1 /\ f1 < f2 /\ f2 < f3
C(a, b) == a + b                           \* doubled centre of the cell [a, b]
Q(a, b) == s * C(a, b) + 2 * c             \* doubled cell value of the linear profile
P4(x) == 4 * kd * (s * x + c)              \* 4 kd p(x)

(* g1 = gradient at face f1 (cells 0|1), g2 = gradient at face f2 (cells 1|2), as calc_grad defines them *)
Grads == /\ g1 * (C(f1, f2) - C(f0, f1)) = Q(f1, f2) - Q(f0, f1)
         /\ g2 * (C(f2, f3) - C(f1, f2)) = Q(f2, f3) - Q(f1, f2)

(* 4 kd x (left state of face f2 seen from cell 1) and 4 kd x (right state of face f1 seen from cell 1) *)
LeftK  == 2 * kd * Q(f1, f2) + ((kd - kn) * g1 + (kd + kn) * g2) * (f2 - f1)
RightK == 2 * kd * Q(f1, f2) - ((kd - kn) * g2 + (kd + kn) * g1) * (f2 - f1)

InvLinearK == (Mesh /\ kd > 0 /\ Grads) => (LeftK = P4(f2) /\ RightK = P4(f1))

(* muscl: 2 x state = Q + phi (f2 - f1), phi = limiter(g2, g1); Idempotent: g1 = g2 => phi = g1 *)
InvLinearMuscl == (Mesh /\ Grads /\ (g1 = g2 => phi = g1)) =>
                    (Q(f1, f2) + phi * (f2 - f1) = 2 * (s * f2 + c) /\ Q(f1, f2) - phi * (f2 - f1) = 2 * (s * f1 + c))

InvConstant == (Mesh /\ kd > 0 /\ s = 0 /\ Grads /\ ((g1 = 0 /\ g2 = 0) => phi = 0)) =>
                 (LeftK = 4 * kd * c /\ RightK = 4 * kd * c /\ Q(f1, f2) + phi * (f2 - f1) = 2 * c)

(* periodic seam of the 3-cell mesh: 2 x (xc_0 + length - xc_2) = vol_0 + vol_2, for every origin f0 *)
InvSeam == Mesh => (C(f0, f1) + 2 * (f3 - f0) - C(f2, f3) = (f1 - f0) + (f3 - f2))
(* C14: on a uniform mesh (any origin) the seam distance IS the interior centre distance: the seam gradient is an interior one *)
InvSeamUniform == (Mesh /\ f1 - f0 = f2 - f1 /\ f2 - f1 = f3 - f2) =>
                    (C(f0, f1) + 2 * (f3 - f0) - C(f2, f3) = C(f1, f2) - C(f0, f1))
InvBadSeamUniform == (Mesh /\ f1 - f0 = f2 - f1 /\ f2 - f1 = f3 - f2) =>
                       (C(f0, f1) + 2 * f3 - C(f2, f3) = C(f1, f2) - C(f0, f1))
InvBadSeam == Mesh => (C(f0, f1) + 2 * f3 - C(f2, f3) = (f1 - f0) + (f3 - f2))

(* uniform mesh, dx = 1, a = +1, data u0..u3 = q_{c-2} .. q_{c+1}: 4 kd x upwind (left) face states and the residual of cell c *)
FaceHi == 4 * kd * u2 + (kd - kn) * (u2 - u1) + (kd + kn) * (u3 - u2)
FaceLo == 4 * kd * u1 + (kd - kn) * (u1 - u0) + (kd + kn) * (u2 - u1)
(* 4 kd x KappaStencil(k)[m] of FVM1D.tla, km = (1-k)/4, kp = (1+k)/4 *)
Sm2 == -(kd - kn)
Sm1 == 4 * kd + 2 * (kd - kn) - (kd + kn)
S0  == -(4 * kd + (kd - kn)) + 2 * (kd + kn)
Sp1 == -(kd + kn)
InvStencil == (FaceLo - FaceHi = Sm2 * u0 + Sm1 * u1 + S0 * u2 + Sp1 * u3)
InvMoments == /\ Sm2 + Sm1 + S0 + Sp1 = 0
              /\ -2 * Sm2 - Sm1 + Sp1 = -4 * kd
              /\ 4 * Sm2 + Sm1 + Sp1 = 0
              /\ (kd > 0 => ((-8 * Sm2 - Sm1 + Sp1 = 0) <=> (3 * kn = kd)))

(* the same operator for a = -1 (right states upwind; u0..u3 = q_{c-1} .. q_{c+2}): the MIRROR IMAGE of the stencil, coefficient
   s(m) on q_{c-m} -- C13 at the level of the stencil, and the formula of the right state in xnum.extrapolk / extrapol2dk
   (weights (1-k) on the far gradient, (1+k) on the near one).  InvBadMirrorK: the right state built from the slope of the
   LEFT state (seed C11d: one k-weighted slope for both faces) is the mirror image only for k = 0 *)
RFaceHi == 4 * kd * u2 - (kd - kn) * (u3 - u2) - (kd + kn) * (u2 - u1)
RFaceLo == 4 * kd * u1 - (kd - kn) * (u2 - u1) - (kd + kn) * (u1 - u0)
InvStencilMirror == (RFaceHi - RFaceLo = Sm2 * u3 + Sm1 * u2 + S0 * u1 + Sp1 * u0)
InvBadMirrorK == ((4 * kd * u2 - (kd - kn) * (u2 - u1) - (kd + kn) * (u3 - u2))
                  - (4 * kd * u1 - (kd - kn) * (u1 - u0) - (kd + kn) * (u2 - u1)) = Sm2 * u3 + Sm1 * u2 + S0 * u1 + Sp1 * u0)

InvBadStencil == (FaceLo - FaceHi = -(kd + kn) * u0 + (4 * kd + 2 * (kd + kn) - (kd - kn)) * u1
                                    + (-(4 * kd + (kd + kn)) + 2 * (kd - kn)) * u2 - (kd - kn) * u3)
InvBadThird == (kd > 0) => (-8 * Sm2 - Sm1 + Sp1 = 0)
(* gradient formed with the width of the downstream cell: g (2 vol_j) = dQ *)
InvBadWidthGrad == (Mesh /\ kd > 0 /\ g1 * 2 * (f2 - f1) = Q(f1, f2) - Q(f0, f1) /\ g2 * 2 * (f3 - f2) = Q(f2, f3) - Q(f1, f2))
                     => (LeftK = P4(f2))
=============================================================================
