----------------------------- MODULE Apa_Driver -----------------------------
(***************************************************************************)
(* C07 for SYMBOLIC times: the loop of timemodel._solve (Driver.tla: Call,  *)
(* PreSave, IterBegin, SideStep*, MainStep, CheckEnd, Return) with the      *)
(* starting time, up to three requested save times, the stop time, the      *)
(* iteration limit and EVERY time step left as unconstrained integers       *)
(* (Apalache + Z3, bounded to the first `--length` loop iterations), where  *)
(* MC_Driver enumerates small integer scenarios.  One action per loop       *)
(* iteration: the snapshots of that iteration and its full step.            *)
(*                                                                         *)
(* Invariants (the clauses of Contract.tla that talk about times):          *)
(*   InvSnapshots  every snapshot sits at a requested time >= the start,    *)
(*                 in request order, each time at most once, stamped with   *)
(*                 the number of full steps taken before, and is a forward  *)
(*                 step from the trajectory state of that stamp of at most  *)
(*                 the step the iteration was about to take                 *)
(*   InvNoneMissed a requested time in [start, current time] has its        *)
(*                 snapshot (so: one per requested time not later than the  *)
(*                 stop when the run has ended)                             *)
(*   InvFirstStop  the run ends at the FIRST state that satisfies a         *)
(*                 criterion: no earlier trajectory state satisfied one     *)
(*   InvCounts     nit = number of full steps, time = start + sum of steps  *)
(*   InvMaxit      a run not ended by its stop time took exactly `maxit`    *)
(*                 steps, whatever the stamp of the field it started from   *)
(*   InvMonitor    (C08) a monitor of frequency k holds exactly the         *)
(*                 trajectory states whose cumulative iteration number is a *)
(*                 multiple of k, in order, once each, with their times     *)
(* Teeth: a loop that takes at most one snapshot per iteration (the pinned  *)
(* defect D01, `SaveOnePerIter` of Driver.tla) violates InvNoneMissed; an   *)
(* iteration limit compared with the cumulative count (seeds C07e / C07f)   *)
(* violates InvMaxit; a monitor looking at the steps of this call (C08d)    *)
(* violates InvMonitor.                                                     *)
(***************************************************************************)
EXTENDS Integers, Sequences

VARIABLES
  \* @type: Int;
  t0,
  \* @type: Int;
  s1,
  \* @type: Int;
  s2,
  \* @type: Int;
  s3,
  \* @type: Int;
  ns,
  \* @type: Bool;
  hasT,
  \* @type: Int;
  T,
  \* @type: Bool;
  hasM,
  \* @type: Int;
  M,
  \* @type: Str;
  pc,
  \* @type: Int;
  t,
  \* @type: Int;
  nit,
  \* @type: Int;
  isave,
  \* @type: Seq({ts: Int, it: Int, src: Int, room: Int});
  res,
  \* @type: Seq(Int);
  traj,
  \* @type: Bool;
  onePerIter,
  \* @type: Int;
  it0,
  \* @type: Bool;
  maxitOnTotal,
  \* @type: Int;
  freq,
  \* @type: Seq({it: Int, t: Int});
  mon,
  \* @type: Bool;
  monOnNit

vars == <<t0, s1, s2, s3, ns, hasT, T, hasM, M, pc, t, nit, isave, res, traj, onePerIter, it0, maxitOnTotal, freq, mon, monOnNit>>

TS(k) == IF k = 1 THEN s1 ELSE IF k = 2 THEN s2 ELSE s3
(* restart(f, ...) continues the numbering of the field it is given: itstart = max(f.it, 0); solve() starts at 0.
   The iteration limit counts the steps of THIS call (nit), not the cumulative number *)
ItStart == IF it0 > 0 THEN it0 ELSE 0
CheckEnd(tt, n) == (hasT /\ tt >= T) \/ (hasM /\ (IF maxitOnTotal THEN ItStart + n ELSE n) >= M)

(* the caller's arguments: anything admissible *)
Args == /\ t0 \in Int /\ s1 \in Int /\ s2 \in Int /\ s3 \in Int /\ ns \in 0..3
        /\ s1 < s2 /\ s2 < s3                                     \* requested times increase
        /\ hasT \in BOOLEAN /\ T \in Int /\ hasM \in BOOLEAN /\ M \in Int /\ M >= 0
        /\ (hasT \/ hasM)                                          \* otherwise the code raises "missing stopping criteria"
        /\ (ns > 0 => hasT)                                        \* the default stop time is the last save time, unless given
        /\ it0 \in Int /\ it0 >= -1                                \* the stamp of the starting field (-1: a user's field; solve: ignored = 0)
        /\ freq \in Int /\ freq >= 1                               \* one monitor, recording every `freq` iterations
Init0 == /\ Args /\ pc = "pre" /\ t = t0 /\ nit = 0 /\ isave = 0 /\ res = <<>> /\ traj = <<t0>> /\ mon = <<>>
Init == Init0 /\ onePerIter = FALSE /\ maxitOnTotal = FALSE /\ monOnNit = FALSE
InitBad == Init0 /\ onePerIter = TRUE /\ maxitOnTotal = FALSE /\ monOnNit = FALSE
InitBadMaxit == Init0 /\ onePerIter = FALSE /\ maxitOnTotal = TRUE /\ monOnNit = FALSE
InitBadMon == Init0 /\ onePerIter = FALSE /\ maxitOnTotal = FALSE /\ monOnNit = TRUE

(* _parse_monitors: called once before the loop and after every full step; a monitor records when the CUMULATIVE iteration
   number is a multiple of its frequency (monOnNit: the seeded variant that looks at the steps of this call, C08d) *)
Due(n) == (IF monOnNit THEN n ELSE ItStart + n) % freq = 0
Monitored(m, n, tt) == IF Due(n) THEN Append(m, [it |-> ItStart + n, t |-> tt]) ELSE m

Rec(k, room) == [ts |-> TS(k), it |-> ItStart + nit, src |-> t, room |-> room]
(* before the loop: requested times before the start are skipped, one equal to the start is the initial state itself *)
Pre == /\ pc = "pre"
       /\ LET Handled(k) == k <= ns /\ TS(k) <= t0
              r1 == IF 1 <= ns /\ TS(1) = t0 THEN Append(res, Rec(1, 0)) ELSE res
              r2 == IF 2 <= ns /\ TS(2) = t0 THEN Append(r1, Rec(2, 0)) ELSE r1
              r3 == IF 3 <= ns /\ TS(3) = t0 THEN Append(r2, Rec(3, 0)) ELSE r2
          IN /\ res' = r3
             /\ isave' = (IF Handled(1) THEN 1 ELSE 0) + (IF Handled(2) THEN 1 ELSE 0) + (IF Handled(3) THEN 1 ELSE 0)
       /\ pc' = IF CheckEnd(t0, 0) THEN "done" ELSE "loop"
       /\ mon' = Monitored(mon, 0, t0)
       /\ UNCHANGED <<t0, s1, s2, s3, ns, hasT, T, hasM, M, t, nit, traj, onePerIter, it0, maxitOnTotal, freq, monOnNit>>

(* one iteration with the step d the space operator answers: every save time reached by this step, then the full step *)
Iter(d) ==
  /\ pc = "loop" /\ d > 0
  /\ LET Reached(k) == k > isave /\ k <= ns /\ t + d >= TS(k)
         Take(k) == Reached(k) /\ (onePerIter => k = isave + 1)
         r1 == IF Take(1) THEN Append(res, Rec(1, d)) ELSE res
         r2 == IF Take(2) THEN Append(r1, Rec(2, d)) ELSE r1
         r3 == IF Take(3) THEN Append(r2, Rec(3, d)) ELSE r2
         n  == (IF Take(1) THEN 1 ELSE 0) + (IF Take(2) THEN 1 ELSE 0) + (IF Take(3) THEN 1 ELSE 0)
         stop == CheckEnd(t + d, nit + 1)
     IN /\ isave' = isave + n
        /\ res' = IF stop /\ r3 = <<>> THEN <<[ts |-> t + d, it |-> ItStart + nit + 1, src |-> t + d, room |-> 0]>> ELSE r3
        /\ pc' = IF stop THEN "done" ELSE "loop"
  /\ t' = t + d /\ nit' = nit + 1 /\ traj' = Append(traj, t + d)
  /\ mon' = Monitored(mon, nit + 1, t + d)
  /\ UNCHANGED <<t0, s1, s2, s3, ns, hasT, T, hasM, M, onePerIter, it0, maxitOnTotal, freq, monOnNit>>

Next == Pre \/ (\E d \in Int : Iter(d)) \/ (pc = "done" /\ UNCHANGED vars)

(* ------------------------------------------------------------------ invariants *)
Requested(x) == \E k \in 1..3 : k <= ns /\ TS(k) = x
FinalOnly == Len(res) = 1 /\ res[1].room = 0 /\ res[1].src = res[1].ts /\ ~Requested(res[1].ts)     \* "save at least current state"
InvSnapshots ==
  FinalOnly \/
  /\ \A i \in DOMAIN res : /\ Requested(res[i].ts) /\ res[i].ts >= t0
                          /\ res[i].it >= ItStart /\ res[i].it - ItStart < Len(traj)
                          /\ traj[res[i].it - ItStart + 1] = res[i].src              \* stamp = numbering of the start + steps before
                          /\ res[i].src <= res[i].ts /\ res[i].ts <= res[i].src + res[i].room                 \* a forward step within d
  /\ \A i, j \in DOMAIN res : i < j => res[i].ts < res[j].ts                                                  \* in order, once each
InvNoneMissed == (pc # "pre") => \A k \in 1..3 : (k <= ns /\ TS(k) >= t0 /\ TS(k) <= t) => \E i \in DOMAIN res : res[i].ts = TS(k)
InvFirstStop == /\ (pc = "done") => CheckEnd(t, nit)
                /\ \A n \in DOMAIN traj : n < Len(traj) => ~CheckEnd(traj[n], n - 1)
(* a run that was not ended by its stop time took exactly the number of steps asked for, whatever the stamp it started from *)
InvMaxit == (pc = "done" /\ ~(hasT /\ t >= T)) => (hasM /\ nit = M)
(* C08: the monitor holds exactly the trajectory states whose cumulative iteration number is a multiple of its frequency,
   in order, each once, with the time of that state *)
InvMonitor == (pc # "pre") =>
  /\ \A i \in DOMAIN mon : /\ mon[i].it % freq = 0 /\ mon[i].it >= ItStart /\ mon[i].it <= ItStart + nit
                            /\ traj[mon[i].it - ItStart + 1] = mon[i].t
  /\ \A i, j \in DOMAIN mon : i < j => mon[i].it < mon[j].it
  /\ \A n \in DOMAIN traj : ((ItStart + n - 1) % freq = 0) => \E i \in DOMAIN mon : mon[i].it = ItStart + n - 1
InvCounts == Len(traj) = nit + 1 /\ traj[Len(traj)] = t /\ traj[1] = t0 /\ \A n \in DOMAIN traj : n > 1 => traj[n] > traj[n - 1]
(* non-vacuity: three snapshots in one run, two of them in one iteration, are reachable (these must be REFUTED) *)
InvVacThree == ~(Len(res) = 3 /\ pc = "done")
InvVacMon == ~(Len(mon) >= 3 /\ freq >= 2 /\ ItStart >= 1)
InvVacTwoInOne == ~(\E i, j \in DOMAIN res : i < j /\ res[i].it = res[j].it /\ res[i].it > 0)
=============================================================================
