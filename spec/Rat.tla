-------------------------------- MODULE Rat --------------------------------
(***************************************************************************)
(* Exact rational arithmetic for TLC.  A rational is <<n, d>> with d > 0    *)
(* and gcd(|n|, d) = 1.  TLC traps 32-bit overflow with an error (it never  *)
(* wraps), so a result computed here is exact or the run fails loudly.      *)
(* Also: vectors / matrices of rationals (tuples), used by RK, Implicit,    *)
(* FVM.                                                                     *)
(***************************************************************************)
EXTENDS Integers, Sequences, FiniteSets, TLC

Abs(x) == IF x < 0 THEN -x ELSE x
Max(a, b) == IF a >= b THEN a ELSE b
Min(a, b) == IF a <= b THEN a ELSE b

RECURSIVE Gcd(_, _)
Gcd(a, b) == IF b = 0 THEN a ELSE Gcd(b, a % b)

Norm(n, d) == IF n = 0 THEN <<0, 1>>
              ELSE LET s == IF d < 0 THEN -1 ELSE 1
                       g == Gcd(Abs(n), Abs(d))
                   IN <<(s * n) \div g, (s * d) \div g>>

R(n) == <<n, 1>>
Q(n, d) == Norm(n, d)
Zero == <<0, 1>>
One  == <<1, 1>>
Half == <<1, 2>>

IsRat(x) == x \in Int \X (Nat \ {0})

(* cross-reduce before multiplying to keep the integers small *)
RMul(a, b) == LET g1 == Gcd(Abs(a[1]), b[2])
                  g2 == Gcd(Abs(b[1]), a[2])
              IN IF a[1] = 0 \/ b[1] = 0 THEN Zero
                 ELSE <<(a[1] \div g1) * (b[1] \div g2), (a[2] \div g2) * (b[2] \div g1)>>
RAdd(a, b) == LET g == Gcd(a[2], b[2])
              IN Norm(a[1] * (b[2] \div g) + b[1] * (a[2] \div g), (a[2] \div g) * b[2])
RNeg(a) == <<-a[1], a[2]>>
RSub(a, b) == RAdd(a, RNeg(b))
RInv(a) == IF a[1] > 0 THEN <<a[2], a[1]>> ELSE <<-a[2], -a[1]>>      \* a # 0
RDiv(a, b) == RMul(a, RInv(b))
(* compare over the reduced common denominator (keeps the products small) *)
RLt(a, b) == LET g == Gcd(a[2], b[2]) IN a[1] * (b[2] \div g) < b[1] * (a[2] \div g)
RLe(a, b) == LET g == Gcd(a[2], b[2]) IN a[1] * (b[2] \div g) <= b[1] * (a[2] \div g)
REq(a, b) == a = b                                                   \* both normalised
RAbs(a) == <<Abs(a[1]), a[2]>>
RSign(a) == IF a[1] > 0 THEN 1 ELSE IF a[1] < 0 THEN -1 ELSE 0
RMin(a, b) == IF RLe(a, b) THEN a ELSE b
RMax(a, b) == IF RLe(a, b) THEN b ELSE a
RSq(a) == RMul(a, a)
RECURSIVE RPow(_, _)
RPow(a, k) == IF k = 0 THEN One ELSE RMul(a, RPow(a, k - 1))

(* exact integer square root when it exists *)
RECURSIVE ISqrtFrom(_, _)
ISqrtFrom(n, r) == IF r * r >= n THEN r ELSE ISqrtFrom(n, r + 1)
ISqrt(n) == ISqrtFrom(n, 0)                       \* least r with r*r >= n
IsSquareInt(n) == n >= 0 /\ ISqrt(n) * ISqrt(n) = n
IsSquare(a) == IsSquareInt(a[1]) /\ IsSquareInt(a[2])
RSqrt(a) == <<ISqrt(a[1]), ISqrt(a[2])>>          \* only when IsSquare(a)

(* sums and dot products over tuples of rationals *)
RECURSIVE RSumTo(_, _)
RSumTo(v, k) == IF k = 0 THEN Zero ELSE RAdd(RSumTo(v, k - 1), v[k])
RSum(v) == RSumTo(v, Len(v))
Dot(u, v) == RSum([i \in 1..Len(u) |-> RMul(u[i], v[i])])
VAdd(u, v) == [i \in 1..Len(u) |-> RAdd(u[i], v[i])]
VSub(u, v) == [i \in 1..Len(u) |-> RSub(u[i], v[i])]
VScale(c, v) == [i \in 1..Len(v) |-> RMul(c, v[i])]
VHad(u, v) == [i \in 1..Len(u) |-> RMul(u[i], v[i])]

(* matrices: tuple of rows *)
MRow(M, i) == M[i]
MCol(M, j) == [i \in 1..Len(M) |-> M[i][j]]
MVec(M, v) == [i \in 1..Len(M) |-> Dot(M[i], v)]
MMul(A, B) == [i \in 1..Len(A) |-> [j \in 1..Len(B[1]) |-> Dot(A[i], MCol(B, j))]]
MAdd(A, B) == [i \in 1..Len(A) |-> VAdd(A[i], B[i])]
MSub(A, B) == [i \in 1..Len(A) |-> VSub(A[i], B[i])]
MScale(c, A) == [i \in 1..Len(A) |-> VScale(c, A[i])]
Ident(n) == [i \in 1..n |-> [j \in 1..n |-> IF i = j THEN One ELSE Zero]]
ZeroM(n, m) == [i \in 1..n |-> [j \in 1..m |-> Zero]]
RECURSIVE MPow(_, _)
MPow(A, k) == IF k = 0 THEN Ident(Len(A)) ELSE MMul(A, MPow(A, k - 1))

(* exact solution of M x = r by Gauss-Jordan elimination with first non-zero pivot (M square, non singular) *)
RECURSIVE Elim(_, _, _)
Elim(M, r, k) ==     \* M, r after eliminating columns 1..k-1; returns <<M, r>> fully reduced
  LET n == Len(M) IN
  IF k > n THEN <<M, r>>
  ELSE LET p == CHOOSE i \in k..n : M[i][k] # Zero /\ \A j \in k..(i - 1) : M[j][k] = Zero
           \* swap rows k and p
           Ms == [i \in 1..n |-> IF i = k THEN M[p] ELSE IF i = p THEN M[k] ELSE M[i]]
           rs == [i \in 1..n |-> IF i = k THEN r[p] ELSE IF i = p THEN r[k] ELSE r[i]]
           piv == Ms[k][k]
           rowk == VScale(RInv(piv), Ms[k])
           rk == RMul(RInv(piv), rs[k])
           Mn == [i \in 1..n |-> IF i = k THEN rowk ELSE VSub(Ms[i], VScale(Ms[i][k], rowk))]
           rn == [i \in 1..n |-> IF i = k THEN rk ELSE RSub(rs[i], RMul(Ms[i][k], rk))]
       IN Elim(Mn, rn, k + 1)
Solve(M, r) == Elim(M, r, 1)[2]
Singular(M) == FALSE   \* callers only pass non singular systems; Elim's CHOOSE fails loudly otherwise

(* JSON helpers: [n, d] pairs arrive as 2-tuples *)
FromPair(p) == Norm(p[1], p[2])
VecFrom(ps) == [i \in 1..Len(ps) |-> FromPair(ps[i])]
MatFrom(pss) == [i \in 1..Len(pss) |-> VecFrom(pss[i])]
=============================================================================
