SPECIFICATION Spec
CONSTANTS
  PosDeviations = {"RusanovCubic"}
  SwCs <- SwCsDef
  SwUs <- SwUsDef
  EuRhos <- EuRhosDef
  EuUs <- EuUsDef
  EuCs <- EuCsDef
INVARIANT Positive
INVARIANT PositiveWall
CHECK_DEADLOCK FALSE
