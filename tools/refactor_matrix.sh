#!/bin/bash
# usage: tools/refactor_matrix.sh [parallelism] -- every stored behaviour-preserving refactoring against the CURRENT quick checks
P=${1:-2}
one() {
  r=$1; wt=/tmp/wt_rm_$r
  git -C /repo worktree add --detach $wt HEAD >/dev/null 2>&1 || { echo "$r: cannot create worktree"; return; }
  if git -C $wt apply /verif/refactorings/$r/patch.diff 2>/dev/null; then
    /verif/tools/refactor_eval.sh $wt > /verif/refactorings/$r/final_checks.log 2>&1
    echo "$r: clean=$(grep -c 'violations=0' /verif/refactorings/$r/final_checks.log) alarms=$(grep -c 'VIOLATION\|MACHINERY' /verif/refactorings/$r/final_checks.log) drift=$(grep -c DRIFT /verif/refactorings/$r/final_checks.log)"
  else
    echo "$r: patch does not apply"
  fi
  git -C /repo worktree remove --force $wt >/dev/null 2>&1
}
export -f one
ls /verif/refactorings | xargs -P $P -I{} bash -c 'one {}'
git -C /repo worktree prune
