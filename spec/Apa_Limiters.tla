---------------------------- MODULE Apa_Limiters ----------------------------
(***************************************************************************)
(* C12 for ALL arguments, not a grid (symbolic, Apalache + Z3).             *)
(*                                                                         *)
(* The four limiters of Limiters.tla are homogeneous of degree one, so a    *)
(* pair of rationals (x/d, y/d) reduces to the integer pair (x, y): the     *)
(* region clauses are stated here over a, b \in Int (unbounded), the smooth *)
(* limiters through numerator / denominator, cross-multiplied with positive *)
(* denominators.  Each invariant is checked as Init => Inv (length 0), Init *)
(* leaving a, b, lam unconstrained.  `InvBad` is a deliberately wrong       *)
(* superbee (factor 3) that the tool has to refute (selftest).              *)
(*                                                                         *)
(* MC_Limiters.tla (TLC, exact rationals on a grid) stays the reference     *)
(* that the conformance judge Judge_Limiters shares; this module lifts its  *)
(* clauses from the grid to every argument.                                 *)
(***************************************************************************)
EXTENDS Integers
VARIABLES
  \* @type: Int;
  a,
  \* @type: Int;
  b,
  \* @type: Int;
  lam

Abs(x) == IF x < 0 THEN -x ELSE x
Min(x, y) == IF x <= y THEN x ELSE y
Max(x, y) == IF x >= y THEN x ELSE y
Sgn(x) == IF x > 0 THEN 1 ELSE IF x < 0 THEN -1 ELSE 0
Same(x, y) == (x > 0 /\ y > 0) \/ (x < 0 /\ y < 0)

Minmod(x, y) == IF ~Same(x, y) THEN 0 ELSE IF x > 0 THEN Min(x, y) ELSE Max(x, y)
Superbee(x, y) == IF ~Same(x, y) THEN 0
                  ELSE IF x > 0 THEN Min(2 * Min(x, y), Max(x, y)) ELSE Max(2 * Max(x, y), Min(x, y))
(* smooth limiters: value = N / D with D > 0 *)
VanAlbadaN(x, y) == IF ~Same(x, y) THEN 0 ELSE x * y * (x + y)
VanAlbadaD(x, y) == IF ~Same(x, y) THEN 1 ELSE x * x + y * y
VanLeerN(x, y) == IF ~Same(x, y) THEN 0 ELSE Sgn(x) * 2 * x * y
VanLeerD(x, y) == IF ~Same(x, y) THEN 1 ELSE Abs(x + y)

(* the region clauses of Limiters.tla (ZeroAtExtrema, CommonSign, TwiceSmaller, AtMostLarger) *)
RegionInt(phi) == /\ (~Same(a, b) => phi = 0)
                  /\ (Same(a, b) => (phi = 0 \/ Sgn(phi) = Sgn(a)))
                  /\ Abs(phi) <= 2 * Min(Abs(a), Abs(b))
                  /\ Abs(phi) <= Max(Abs(a), Abs(b))
RegionFrac(n, d) == /\ d > 0
                    /\ (~Same(a, b) => n = 0)
                    /\ (Same(a, b) => (n = 0 \/ Sgn(n) = Sgn(a)))
                    /\ Abs(n) <= 2 * Min(Abs(a), Abs(b)) * d
                    /\ Abs(n) <= Max(Abs(a), Abs(b)) * d

Init == a \in Int /\ b \in Int /\ lam \in Int
Next == UNCHANGED <<a, b, lam>>

InvMinmod    == RegionInt(Minmod(a, b))
InvSuperbee  == RegionInt(Superbee(a, b))
InvVanAlbada == RegionFrac(VanAlbadaN(a, b), VanAlbadaD(a, b))
InvVanLeer   == RegionFrac(VanLeerN(a, b), VanLeerD(a, b))
(* Sweby's second-order region: every limiter between minmod and superbee *)
InvSweby == Same(a, b) =>
   /\ Abs(Minmod(a, b)) * VanAlbadaD(a, b) <= Abs(VanAlbadaN(a, b))
   /\ Abs(VanAlbadaN(a, b)) <= Abs(Superbee(a, b)) * VanAlbadaD(a, b)
   /\ Abs(Minmod(a, b)) * VanLeerD(a, b) <= Abs(VanLeerN(a, b))
   /\ Abs(VanLeerN(a, b)) <= Abs(Superbee(a, b)) * VanLeerD(a, b)
(* symmetric, odd, phi(a, a) = a *)
InvSymOdd == /\ Minmod(b, a) = Minmod(a, b) /\ Superbee(b, a) = Superbee(a, b)
             /\ VanAlbadaN(b, a) = VanAlbadaN(a, b) /\ VanAlbadaD(b, a) = VanAlbadaD(a, b)
             /\ VanLeerN(b, a) * VanLeerD(a, b) = VanLeerN(a, b) * VanLeerD(b, a)
             /\ Minmod(-a, -b) = -Minmod(a, b) /\ Superbee(-a, -b) = -Superbee(a, b)
             /\ VanAlbadaN(-a, -b) = -VanAlbadaN(a, b) /\ VanAlbadaD(-a, -b) = VanAlbadaD(a, b)
             /\ VanLeerN(-a, -b) = -VanLeerN(a, b) /\ VanLeerD(-a, -b) = VanLeerD(a, b)
             /\ Minmod(a, a) = a /\ Superbee(a, a) = a
             /\ VanAlbadaN(a, a) = a * VanAlbadaD(a, a) /\ VanLeerN(a, a) = a * VanLeerD(a, a)
(* homogeneity (what justifies the reduction of rationals to integers): phi(lam a, lam b) = lam phi(a, b), lam > 0 *)
InvHomog == lam > 0 =>
   /\ Minmod(lam * a, lam * b) = lam * Minmod(a, b)
   /\ Superbee(lam * a, lam * b) = lam * Superbee(a, b)
   /\ VanLeerN(lam * a, lam * b) * VanLeerD(a, b) = lam * VanLeerN(a, b) * VanLeerD(lam * a, lam * b)
   /\ VanAlbadaN(lam * a, lam * b) * VanAlbadaD(a, b) = lam * VanAlbadaN(a, b) * VanAlbadaD(lam * a, lam * b)

(* selftest: a wrong superbee has to be refuted *)
BadSuperbee(x, y) == IF ~Same(x, y) THEN 0
                     ELSE IF x > 0 THEN Min(3 * Min(x, y), Max(x, y)) ELSE Max(3 * Max(x, y), Min(x, y))
InvBad == RegionInt(BadSuperbee(a, b))
(* and a wrong van Albada (numerator doubled) on the non-linear path *)
InvBad2 == RegionFrac(2 * VanAlbadaN(a, b), VanAlbadaD(a, b))
=============================================================================
