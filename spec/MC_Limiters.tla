----------------------------- MODULE MC_Limiters -----------------------------
(* exhaustive: every limiter on the grid a, b in {-24..24}/d, d in Dens; a trivial one-step machine whose initial
   states ARE the cases (TLC enumerates them), every clause an invariant *)
EXTENDS Limiters
CONSTANTS Bound, Dens
VARIABLES lim, a, b, lam
Init == /\ lim \in LimiterNames
        /\ \E d \in Dens : \E x \in (-Bound)..Bound : \E y \in (-Bound)..Bound : a = Q(x, d) /\ b = Q(y, d)
        /\ lam \in {Q(1, 3), R(2), Q(7, 5)}
Next == UNCHANGED <<lim, a, b, lam>>
Spec == Init /\ [][Next]_<<lim, a, b, lam>>
Phi == Lim(lim, a, b)
Region == InRegion(a, b, Phi)
Symmetric == Lim(lim, b, a) = Phi
Odd == Lim(lim, RNeg(a), RNeg(b)) = RNeg(Phi)
Homogeneous == Lim(lim, RMul(lam, a), RMul(lam, b)) = RMul(lam, Phi)
Idempotent == Lim(lim, a, a) = a
(* Sweby's second-order region for r = b/a > 0: between the minmod and superbee bounds *)
SecondOrder == (RSign(a) * RSign(b) > 0) =>
                  /\ RLe(RAbs(Minmod(a, b)), RAbs(Phi)) /\ RLe(RAbs(Phi), RAbs(Superbee(a, b)))
=============================================================================
