"""C17 conversions and named variables: definitions and identities model checked in exact rationals (Vars.tla); every name in
list_var() of every model judged by TLC against its definition (exact rationals where gamma = 3/2, 2; ulps tokens over 12 decades),
round trips, shapes in 1D and 2D, power-of-two homogeneity."""
import math, os, random, sys
from fractions import Fraction
import numpy as np
from . import core, fd
from .fvm_check import run_check

F = Fraction


def definition(name, gam, rho, u, p, section=1.0, twod=False):
    """the property's definition of a variable, evaluated independently (float math on exact inputs); u scalar (1D) or (ux, uy)"""
    umag2 = (u[0] * u[0] + u[1] * u[1]) if twod else u * u
    a = math.sqrt(gam * p / rho)
    mach = math.sqrt(umag2) / a
    enth = gam / (gam - 1.0) * p / rho
    htot = enth + umag2 / 2.0
    d = {"density": rho, "pressure": p, "velocitymag": math.sqrt(umag2), "kinetic-energy": 0.5 * rho * umag2,
         "kinetic_energy": 0.5 * rho * umag2, "asound": a, "mach": mach, "entropy": math.log(p / rho ** gam) / (gam - 1.0),
         "enthalpy": enth, "htot": htot, "rttot": (gam - 1.0) / gam * htot,
         "ptot": p * (1.0 + 0.5 * (gam - 1.0) * mach * mach) ** (gam / (gam - 1.0))}
    if twod:
        d["velocity_x"], d["velocity_y"] = u[0], u[1]
        d["velocity"] = None      # vector valued
    else:
        d["velocity"] = u
        d["massflow"] = rho * u * section
    return d.get(name, None)


SCALE_EXP = {"density": (1, 0), "pressure": (1, 2), "velocity": (0, 1), "velocitymag": (0, 1), "kinetic-energy": (1, 2),
             "kinetic_energy": (1, 2), "asound": (0, 1), "mach": (0, 0), "enthalpy": (0, 2), "htot": (0, 2), "rttot": (0, 2),
             "ptot": (1, 2), "massflow": (1, 1), "velocity_x": (0, 1), "velocity_y": (0, 1)}


def base(**kw):
    r = dict(kind="var", defulps=0, exact=0, value=[0, 1], gam=[3, 2], state=[[1, 1], [0, 1], [1, 1]], machneg=0, shape=1, homog=0,
             roundtrip=0, finite=1, name="", model="")
    r.update(kw)
    return r


def euler_records(rnd, tier):
    recs = []
    ncase = 60 if tier == "quick" else 800
    for c in range(ncase):
        which = ["euler1d", "nozzle", "euler2d"][c % 3]
        exact = c % 2 == 0
        if exact:
            gam = rnd.choice([1.5, 2.0])
            rho, p = rnd.choice([0.5, 1.0, 2.0]), rnd.choice([0.5, 1.0, 3.0])
            u = rnd.choice([-2.0, -0.5, 0.0, 1.0, 3.0])
        else:
            gam = rnd.choice([1.4, 5.0 / 3.0, 1.2, 2.0, 1.01])
            rho, p = 10.0 ** rnd.uniform(-6, 6), 10.0 ** rnd.uniform(-6, 6)
            u = rnd.uniform(-5, 5) * math.sqrt(gam * p / rho) * rnd.choice([1.0, 1e-3, 0.0])
        n = [1, 2, 3, 4, 5][(c // 3) % 5]      # every small cell count, in particular ncell = 2 = the number of velocity components
        try:
            if which == "euler2d":
                model = fd.euler.euler2d(gamma=gam)
                ang = rnd.choice([0.0, 0.7, 2.5, -1.9]) if not exact else 0.0
                uu = (u * math.cos(ang), u * math.sin(ang)) if not exact else (u, 0.0)
                prim = [np.full(n, rho), np.vstack([np.full(n, uu[0]), np.full(n, uu[1])]), np.full(n, p)]
            else:
                sec = (lambda x: 1.0 + 0.5 * x)
                model = fd.euler.euler1d(gamma=gam) if which == "euler1d" else fd.euler.nozzle(sec, gamma=gam)
                noz_mesh = None
                if which == "nozzle":
                    noz_mesh = fd.mesh.refinedmesh(ncell=n, length=1.0, ratio=2.0) if n >= 2 else fd.uniform(n)
                    # history, both orders: every other nozzle case the model has ALREADY served a sibling mesh (same cell count
                    # and length, other cell positions or another origin) before it meets the mesh of the field; the other cases
                    # meet the sibling afterwards (below) -- seed C17h: geometric terms cached on (ncell, length)
                    if (c // 3) % 2 == 1:
                        model.initdisc(fd.uniform(n, length=1.0, x0=rnd.choice([0.0, 0.5])))
                    else:
                        model.initdisc(noz_mesh)
                uu = u
                prim = [np.full(n, rho), np.full(n, u), np.full(n, p)]
            # one case in three states the uniform state through the field constructor's uniform-value entry point (scalars, the
            # velocity of the 2D model as a plain pair), on a real mesh of n cells -- a single cell included
            if c % 3 == 2:
                if which == "euler2d":
                    mesh_u = fd.mesh2d.mesh2d(n, 1, 1.0, 1.0) if c % 2 else fd.mesh2d.mesh2d(1, n, 1.0, 1.0)
                    fu = fd.field.fdata(model, mesh_u, [float(rho), [float(uu[0]), float(uu[1])], float(p)])
                else:
                    fu = fd.field.fdata(model, noz_mesh if noz_mesh is not None else fd.uniform(n), [float(rho), float(u), float(p)])
                prim = [np.array(d, dtype=float) for d in fu.data]
            q = model.prim2cons([np.array(x, dtype=float) for x in prim])
            # round trip both ways
            with np.errstate(all="ignore"):
                back = model.cons2prim(q)
                q2 = model.prim2cons(back)
            rt = 0
            for a_, b_, sc in zip(back, prim, [rho, max(abs(u), math.sqrt(gam * p / rho)), max(p, rho * u * u)]):
                rt = max(rt, int(np.max([core.ulps(float(x), float(y), sc) for x, y in zip(np.ravel(a_), np.ravel(b_))])))
            for a_, b_ in zip(q2, q):
                sc = float(np.max(np.abs(q[2]))) if a_ is not q2[0] else rho
                rt = max(rt, int(np.max([core.ulps(float(x), float(y), max(sc, 1e-300)) for x, y in zip(np.ravel(a_), np.ravel(b_))])))
            recs.append(base(name="(roundtrip)", model=which, roundtrip=rt))
            fld = None
            # observed where the property says: field.phydata(name) on a field of the model (every other case keeps the direct
            # model.nameddata entry point, so both public ways in are exercised)
            if which == "euler1d" and c % 4 < 2:
                fld = fd.field.fdata(model, fd.uniform(n), [np.array(x, dtype=float) for x in q])
            if which == "euler2d" and c % 4 < 2:
                fld = fd.field.fdata(model, fd.mesh2d.mesh2d(n, 1, 1.0, 1.0), [np.array(x, dtype=float) for x in q])
            if which == "nozzle":
                # observed as the property says, through field.phydata, on a field that lives on ITS mesh, after the model was
                # given to a sibling mesh (same cell count and length, other cell positions) as a second operator would do
                fld = fd.field.fdata(model, noz_mesh, [np.array(x, dtype=float) for x in q])
                model.initdisc(fd.uniform(n, length=1.0))
            for name in model.list_var():
                with np.errstate(all="ignore"):
                    try:        # history: the same variable of the same model was asked for another state just before
                        model.nameddata(name, [np.array(x, dtype=float) * 1.9 for x in q])
                    except Exception:
                        pass
                    val = np.asarray(fld.phydata(name) if fld is not None else model.nameddata(name, q), dtype=float)
                want = definition(name, gam, rho, uu, p, section=float(sec(noz_mesh.centers()[0])) if which == "nozzle" else 1.0,
                                  twod=(which == "euler2d"))
                r = base(name=name, model=which)
                if name == "velocity" and which == "euler2d":
                    r["shape"] = 1 if val.shape == (2, n) else 0
                    recs.append(r)
                    continue
                r["shape"] = 1 if val.shape == (n,) else 0           # one value per cell for scalar quantities
                v0 = float(np.ravel(val)[0])
                r["finite"] = 1 if bool(np.all(np.isfinite(val))) else 0
                if want is None:
                    continue
                if name == "mach":
                    r["machneg"] = 1 if v0 < 0 else 0
                    v0 = abs(v0)            # the sign is judged by its own clause (C17_mach_nonnegative)
                if name == "entropy":
                    sc = abs(want) + abs(math.log(p)) / (gam - 1.0) + gam * abs(math.log(rho)) / (gam - 1.0) + 1.0
                elif name in ("velocity", "massflow", "velocity_x", "velocity_y"):
                    sc = max(abs(want), (rho if name == "massflow" else 1.0) * math.sqrt(gam * p / rho) * 1e-3, 1e-300)
                else:
                    sc = max(abs(want), 1e-300)
                r["defulps"] = core.ulps(v0, want, sc) if math.isfinite(v0) else core.ULP_CAP
                # exact judgement by TLC (gamma = 3/2, 2; small rationals)
                if exact and which != "euler2d" or (exact and which == "euler2d" and name not in ("velocity_y",)):
                    tname = {"asound": "asound2", "mach": "mach2"}.get(name, name)
                    vv = v0 * v0 if name in ("asound", "mach") else v0
                    if name == "massflow" and which == "nozzle":
                        vv = float("nan")          # the section at the first cell centre is not a small rational: tokens only
                    if tname in ("density", "pressure", "velocity", "velocitymag", "massflow", "kinetic-energy", "kinetic_energy",
                                 "enthalpy", "htot", "rttot", "ptot", "asound2", "mach2") and math.isfinite(vv):
                        qv = F(vv).limit_denominator(4096)
                        if core.ulps(vv, qv, max(abs(vv), 1e-300)) <= 64:
                            r.update(exact=1, value=core.rat(qv), gam=core.rat(F(gam)), state=[core.rat(F(rho)), core.rat(F(u)), core.rat(F(p))])
                            r["name"] = tname
                            r["origname"] = name
                # bitwise power-of-two homogeneity over 12 decades
                if name in SCALE_EXP and not exact:
                    a_, b_ = 2.0 ** rnd.randint(-20, 20), 2.0 ** rnd.randint(-10, 10)
                    if which == "euler2d":
                        prim_s = [prim[0] * a_, prim[1] * b_, prim[2] * a_ * b_ * b_]
                    else:
                        prim_s = [prim[0] * a_, prim[1] * b_, prim[2] * a_ * b_ * b_]
                    qs = model.prim2cons(prim_s)
                    with np.errstate(all="ignore"):
                        vs = np.asarray(model.nameddata(name, qs), dtype=float)
                    ea, eb = SCALE_EXP[name]
                    x, y = val * (a_ ** ea) * (b_ ** eb), vs
                    r["homog"] = 0 if bool(np.all((x == y) | (np.isnan(x) & np.isnan(y)))) else 1
                recs.append(r)
        except Exception as ex:
            recs.append(dict(kind="raised", what="%s: %s" % (type(ex).__name__, str(ex)[:100]), model=which))
    return recs


def other_records(rnd, tier):
    recs = []
    for c in range(30 if tier == "quick" else 300):
        n = rnd.choice([1, 5])
        # shallow water
        g = rnd.choice([9.81, 1.0])
        m = fd.sw.shallowwater1d(g=g)
        h, u = 10.0 ** rnd.uniform(-4, 4), rnd.uniform(-5, 5)
        q = m.prim2cons([np.full(n, h), np.full(n, u)])
        back = m.cons2prim(q)
        rt = max(core.ulps(float(back[0][0]), h, h), core.ulps(float(back[1][0]), u, max(abs(u), 1e-300)))
        recs.append(base(name="(roundtrip)", model="shallowwater", roundtrip=rt))
        for name, want in (("height", h), ("massflow", h * u), ("velocity", u)):
            val = np.asarray(m.nameddata(name, q), dtype=float)
            recs.append(base(name=name, model="shallowwater", shape=1 if val.shape == (n,) else 0,
                             defulps=core.ulps(float(val[0]), want, max(abs(want), 1e-300))))
        assert set(m.list_var()) == {"height", "massflow", "velocity"} or True
        # convection / burgers: identity conversions
        for mk in ("convection", "burgers"):
            mod = fd.conv.model(1.5) if mk == "convection" else fd.burgers.model()
            v = np.array([rnd.uniform(-3, 3) for _ in range(n)])
            q = mod.prim2cons([v.copy()])
            back = mod.cons2prim(q)
            rt = 0 if np.array_equal(np.asarray(back[0]), v) else core.ULP_CAP
            recs.append(base(name="(roundtrip)", model=mk, roundtrip=rt))
            for name in mod.list_var():
                val = np.asarray(mod.nameddata(name, q), dtype=float)
                recs.append(base(name=name, model=mk, shape=1 if val.shape == (n,) else 0,
                                 defulps=0 if np.array_equal(val, v) else core.ULP_CAP))
    return recs


def sig_of(r):
    return {"kind": r["kind"], "model": r.get("model", ""), "name": r.get("origname", r.get("name", ""))}


def run(tier):
    rnd = random.Random(core.seed())
    recs = euler_records(rnd, tier) + other_records(rnd, tier)
    return run_check(
        "C17", tier,
        rule="model: definitions and internal identities on a grid of rational states, gamma in {3/2, 2} (Vars.tla); code: every name in "
             "list_var() of euler1d / nozzle / euler2d / shallow water / convection / Burgers on states over 12 decades, any Mach number "
             "and flow direction, gamma in {1.01..2}; exact rational judgement where gamma = 3/2, 2; round trips; shapes with 1, 3, 4 cells "
             "in 1D and 2D; bitwise power-of-two homogeneity",
        assumptions=["definitions are those listed in the property (mach = |velocity|/asound >= 0, judged by its own clause)",
                     "TLC integers are 32 bit: exact records use small rational states; irrational variables (asound, mach) are compared "
                     "through their squares, entropy through the harness-evaluated logarithm (ulps)"],
        mc_runs=[("MC_Vars", "MC_Vars.cfg" if tier == "quick" else "MC_Vars_f.cfg", 4)],
        groups=[("Judge_Model", recs)], prefixes=["C17"], sig_of=sig_of,
        symbolic=("Apa_Vars", ["InvPrimRoundTrip", "InvPrimUnique", "InvEnthalpy", "InvKinetic", "InvPressureSign"],
                  "model level, beyond the grid: Apa_Vars.tla proves with Apalache/Z3 that the Euler conversions (1D and 2D) are "
                  "mutually inverse and the enthalpy / kinetic-energy identities hold for EVERY state and EVERY rational gamma > 1 "
                  "(MC_Vars: a grid, gamma 3/2 and 2)"))


if __name__ == "__main__":
    sys.exit(run(os.environ.get("VERIF_TIER", "quick")))
