"""Case generators for the real 2D cartesian operator: records for spec/Judge_FVM2D.tla (C01, C03, C11, C14, C15)."""
import random
from fractions import Fraction
import numpy as np
from . import core, fd
from . import fvm_obs as O

F = Fraction
TAGS = ("left", "right", "bottom", "top")
BC2_SETS = [
    dict(left=("per",), right=("per",), bottom=("per",), top=("per",)),
    dict(left=("copy",), right=("copy",), bottom=("copy",), top=("copy",)),
    dict(left=("per",), right=("per",), bottom=("copy",), top=("dirichlet", 1.0)),
    dict(left=("dirichlet", 2.0), right=("copy",), bottom=("per",), top=("per",)),
    dict(left=("copy",), right=("dirichlet", 0.0), bottom=("dirichlet", 1.0), top=("copy",)),
]
RECONS2 = [("e1", None), ("k", -1.0), ("k", 0.0), ("k", 0.5), ("k", 1.0)]


class Flux2:
    """generic dyadic table flux of (pL, pR, axis) with optional transformation of the lookup"""

    def __init__(self, seed, mode=None, base=None, linear=None):
        self.t = O.TableFlux(seed)
        self.mode, self.base, self.linear = mode, base, linear

    def value(self, a, b, axis):
        if self.linear is not None:
            ax, sp = self.linear
            if axis != ax:
                return 0.0
            return sp * (a if sp > 0 else b)
        if self.mode == "transpose":
            return self.base.value(a, b, 1 - axis)
        if self.mode == "mirrorx":
            return -self.base.value(b, a, 0) if axis == 0 else self.base.value(a, b, 1)
        if self.mode == "mirrory":
            return -self.base.value(b, a, 1) if axis == 1 else self.base.value(a, b, 0)
        return self.t.value(a, b, axis)

    def __call__(self, pL, pR, axis=None):
        return np.array([self.value(pL[i], pR[i], int(axis[i])) for i in range(len(pL))])


def recon2(r):
    return fd.recon2(r)


def prime_2d(nx, ny, dx, dy, recon, bc):
    """history: the (pooled) reconstruction object first serves a mesh with the same nx, ny and other cell sizes"""
    try:
        sib = fd.mesh2d.mesh2d(nx, ny, nx * dx * 2.0, ny * dy * 0.5)
        model = O.TableModel(Flux2(seed=1))
        disc = fd.modeldisc.fvm2dcart(model, sib, recon2(recon), bclist={t: O.bc_dict(bc[t]) for t in TAGS})
        disc.rhs(fd.field.fdata(model, sib, [np.linspace(-1.0, 2.0, nx * ny)]))
    except Exception:
        pass


def run_rhs2(nx, ny, dx, dy, data, recon, bc, flux, prime=True):
    if prime:
        prime_2d(nx, ny, dx, dy, recon, bc)
    m = fd.mesh2d.mesh2d(nx, ny, nx * dx, ny * dy)
    model = O.TableModel(flux)
    try:
        disc = fd.modeldisc.fvm2dcart(model, m, recon2(recon), bclist={t: O.bc_dict(bc[t]) for t in TAGS})
        f = fd.field.fdata(model, m, [np.array(data, dtype=float)])
        R = disc.rhs(f)
    except Exception as ex:
        raise O.FlowdynRaised("%s: %s" % (type(ex).__name__, str(ex)[:120]))
    pL, pR, fl = model.calls[-1]
    Rr = np.array(R[0], dtype=float)
    if not (np.all(np.isfinite(Rr)) and np.all(np.isfinite(pL[0])) and np.all(np.isfinite(pR[0])) and np.all(np.isfinite(fl[0]))):
        raise O.FlowdynRaised("non-finite face state / residual from finite data")
    return Rr, pL[0], pR[0], fl[0]


def bcj(bc):
    return {t: O.bc_json(bc[t]) for t in TAGS}


def data2(rnd, n):
    k = rnd.choice(["rand", "const", "impulse", "small"])
    if k == "rand":
        return [rnd.randint(-8, 8) / 4.0 for _ in range(n)]
    if k == "const":
        return [rnd.choice([1.0, 0.0, -1.5])] * n
    if k == "small":
        return [float(rnd.randint(0, 2)) for _ in range(n)]
    j = rnd.randrange(n)
    return [1.0 if i == j else 0.0 for i in range(n)]


def sizes(tier):
    if tier == "quick":
        return [(1, 1), (2, 1), (1, 2), (2, 2), (3, 2), (2, 3), (4, 3), (5, 2)]
    return [(1, 1), (2, 1), (1, 2), (2, 2), (3, 2), (2, 3), (3, 3), (4, 3), (3, 5), (5, 2), (8, 4), (6, 7), (12, 3)]


def rec_base(nx, ny, dx, dy, recon):
    return dict(nx=nx, ny=ny, dx=core.rat(F(dx)), dy=core.rat(F(dy)), recon=recon[0],
                kappa=core.rat(F(recon[1])) if recon[1] is not None else [0, 1])


def exact2d_cases(rnd, tier):
    recs = []
    reps = 2 if tier == "quick" else 6
    for (nx, ny) in sizes(tier):
        for recon in RECONS2:
            for bc in BC2_SETS:
                for _ in range(reps if nx * ny <= 12 else 1):
                    dx, dy = rnd.choice([(0.5, 2.0), (1.0, 1.0), (0.25, 0.5), (2.0, 0.5)])
                    d = data2(rnd, nx * ny)
                    if d[0] == d[-1] and len(set(d)) == 1:      # uniform data: make dirichlet values compatible half of the time
                        bc = {t: (("dirichlet", d[0]) if (bc[t][0] == "dirichlet" and rnd.random() < 0.7) else bc[t]) for t in TAGS}
                    flux = Flux2(rnd.randrange(10 ** 6))
                    base = rec_base(nx, ny, dx, dy, recon)
                    try:
                        R, pL, pR, fl = run_rhs2(nx, ny, dx, dy, d, recon, bc, flux)
                        if not O.fits_all(R, pL, pR, fl):
                            continue
                        recs.append(dict(kind="rhs2", d=O.rats(d), pL=O.rats(pL), pR=O.rats(pR), fl=O.rats(fl), res=O.rats(R),
                                         bc=bcj(bc), **base))
                        # transformed twins
                        dT = [d[nx * j + i] for i in range(nx) for j in range(ny)]
                        bcT = dict(left=bc["bottom"], right=bc["top"], bottom=bc["left"], top=bc["right"])
                        RT, _, _, _ = run_rhs2(ny, nx, dy, dx, dT, recon, bcT, Flux2(0, "transpose", flux))
                        recs.append(dict(kind="rel2", rel="transpose", res=O.rats(R), res1=O.rats(RT), bc=bcj(bc), **base))
                        dX = [d[nx * j + (nx - 1 - i)] for j in range(ny) for i in range(nx)]
                        bcX = dict(left=bc["right"], right=bc["left"], bottom=bc["bottom"], top=bc["top"])
                        RX, _, _, _ = run_rhs2(nx, ny, dx, dy, dX, recon, bcX, Flux2(0, "mirrorx", flux))
                        recs.append(dict(kind="rel2", rel="mirrorx", res=O.rats(R), res1=O.rats(RX), bc=bcj(bc), **base))
                        dY = [d[nx * (ny - 1 - j) + i] for j in range(ny) for i in range(nx)]
                        bcY = dict(left=bc["left"], right=bc["right"], bottom=bc["top"], top=bc["bottom"])
                        RY, _, _, _ = run_rhs2(nx, ny, dx, dy, dY, recon, bcY, Flux2(0, "mirrory", flux))
                        recs.append(dict(kind="rel2", rel="mirrory", res=O.rats(R), res1=O.rats(RY), bc=bcj(bc), **base))
                    except O.FlowdynRaised as ex:
                        recs.append(O.raised_record(ex, **base))
    return recs


def shift2d_cases(rnd, tier):
    recs = []
    per = BC2_SETS[0]
    for (nx, ny) in sizes(tier):
        for recon in RECONS2:
            dx, dy = rnd.choice([(0.5, 2.0), (1.0, 1.0), (0.25, 0.5)])
            d = data2(rnd, nx * ny)
            flux = Flux2(rnd.randrange(10 ** 6))
            base = rec_base(nx, ny, dx, dy, recon)
            try:
                R0, _, _, _ = run_rhs2(nx, ny, dx, dy, d, recon, per, flux)
                shifts = []
                A = np.array(d).reshape(ny, nx)
                pairs = [(kx, ky) for kx in range(nx) for ky in range(ny) if (kx, ky) != (0, 0)]
                if len(pairs) > 6:
                    pairs = rnd.sample(pairs, 6)
                for (kx, ky) in pairs:
                    dd = list(np.roll(np.roll(A, kx, axis=1), ky, axis=0).reshape(-1))
                    Rk, _, _, _ = run_rhs2(nx, ny, dx, dy, dd, recon, per, flux)
                    shifts.append(dict(kx=kx, ky=ky, res=O.rats(Rk)))
                recs.append(dict(kind="shift2", res0=O.rats(R0), shifts=shifts, **base))
            except O.FlowdynRaised as ex:
                recs.append(O.raised_record(ex, **base))
    return recs


R1OF = {("e1", None): "extrapol1", ("k", -1.0): "k-1", ("k", 0.0): "k0", ("k", 0.5): "k1/2", ("k", 1.0): "k1"}


def rows_cases(rnd, tier):
    """data invariant along y (x): every row (column) of the 2D residual equals the 1D residual of the real fvm1d"""
    recs = []
    for (nx, ny) in sizes(tier):
        for recon in RECONS2:
            for bcx in [(("per",), ("per",)), (("copy",), ("copy",)), (("dirichlet", 1.0), ("copy",))]:
                dx, dy = rnd.choice([(0.5, 2.0), (1.0, 0.25)])
                flux = Flux2(rnd.randrange(10 ** 6))
                base = rec_base(nx, ny, dx, dy, recon)
                try:
                    # rows
                    row = [rnd.randint(-6, 6) / 2.0 for _ in range(nx)]
                    d = row * ny
                    bc = dict(left=bcx[0], right=bcx[1], bottom=("per",) if ny > 0 else ("copy",), top=("per",))
                    R2, _, _, _ = run_rhs2(nx, ny, dx, dy, d, recon, bc, flux)
                    f1 = O.TableFlux(0)
                    f1.value = lambda a, b, axis=0, _f=flux: _f.value(a, b, 0)
                    _, R1, _, _, _, _ = O.run_rhs_table(fd.uniform(nx, length=nx * dx), row, R1OF[recon], bcx[0], bcx[1], f1)
                    recs.append(dict(kind="rel2", rel="rows", res=O.rats(R2), res1=O.rats(R1), bc=bcj(bc), **base))
                    # columns
                    col = [rnd.randint(-6, 6) / 2.0 for _ in range(ny)]
                    d = [col[j] for j in range(ny) for i in range(nx)]
                    bc = dict(left=("copy",), right=("copy",), bottom=bcx[0], top=bcx[1])
                    R2, _, _, _ = run_rhs2(nx, ny, dx, dy, d, recon, bc, flux)
                    f1 = O.TableFlux(0)
                    f1.value = lambda a, b, axis=0, _f=flux: _f.value(a, b, 1)
                    _, R1, _, _, _, _ = O.run_rhs_table(fd.uniform(ny, length=ny * dy), col, R1OF[recon], bcx[0], bcx[1], f1)
                    recs.append(dict(kind="rel2", rel="cols", res=O.rats(R2), res1=O.rats(R1), bc=bcj(bc), **base))
                except O.FlowdynRaised as ex:
                    recs.append(O.raised_record(ex, **base))
    return recs


def stencil2d_cases(rnd, tier):
    """kappa stencil along each 2D direction: linear flux on one axis, unit impulses along that axis"""
    recs = []
    per = BC2_SETS[0]
    for n in ([3, 4, 6] if tier == "quick" else [1, 2, 3, 4, 5, 6, 8]):
        for (k, kv) in [(-1.0, F(-1)), (0.0, F(0)), (0.5, F(1, 2)), (1.0, F(1)), (1.0 / 3.0, F(1, 3))]:
            for axis in (0, 1):
                for a in (1.0, -2.0):
                    nx, ny = (n, 2) if axis == 0 else (2, n)
                    dx, dy = 0.5, 2.0
                    h = dx if axis == 0 else dy
                    flux = Flux2(0, linear=(axis, a))
                    cols = []
                    try:
                        for j in range(n):
                            d = np.zeros((ny, nx))
                            if axis == 0:
                                d[1, j] = 1.0
                            else:
                                d[j, 1] = 1.0
                            R, _, _, _ = run_rhs2(nx, ny, dx, dy, list(d.reshape(-1)), ("k", k), per, flux)
                            RR = R.reshape(ny, nx)
                            line = RR[1, :] if axis == 0 else RR[:, 1]
                            col = []
                            for v in line:
                                q = F(float(v)).limit_denominator(1000)
                                col.append(core.rat(q))
                            cols.append(col)
                        recs.append(dict(kind="stencil2", n=n, k=core.rat(kv), a=core.rat(F(a)), h=core.rat(F(h)), cols=cols, axis=axis))
                    except O.FlowdynRaised as ex:
                        recs.append(O.raised_record(ex, nx=nx, ny=ny, recon="k"))
    return recs
