SPECIFICATION SSpec
CONSTANTS
  Methods <- AllMethods
  Dts <- DtSet
  StepDeviations = {}
INVARIANT StageTimeIsAbscissa
INVARIANT YCoefficientOne
INVARIANT AtEnd
INVARIANT Controls
CHECK_DEADLOCK FALSE
