SPECIFICATION Spec
CONSTANTS
  Wide = TRUE
INVARIANT InvIdentities
INVARIANT InvBcReduce
INVARIANT InvSym
CHECK_DEADLOCK FALSE
