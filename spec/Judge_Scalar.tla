---------------------------- MODULE Judge_Scalar ----------------------------
(***************************************************************************)
(* C09 judge.  "exact": the fields of successive iterations of a REAL solve *)
(* in the dyadic regime, as exact rationals: TLC evaluates the maximum      *)
(* principle and TVD itself on every observed transition, and (DRIFT) that  *)
(* every observed transition is a step of Scalar.tla.  "tok": per-iteration *)
(* increases of max, -min and TV measured in ulps on random float runs.     *)
(***************************************************************************)
EXTENDS Scalar, Json, IOUtils, SequencesExt
TolRoundoff == 4194304
Recs == ndJsonDeserialize(IOEnv.JUDGE_IN)
VARIABLES i, bad
FailedExact(r) ==
  LET F == [k \in 1..Len(r.fields) |-> VecFrom(r.fields[k])]
      n == Len(F[1])
      xf == [f \in 1..(n + 1) |-> RMul(FromPair(r.dx), R(f - 1))]
      model == <<r.model, FromPair(r.a)>>
      cfl == FromPair(r.cfl)
  IN {c \in {"C09_max_principle", "C09_tvd", "DRIFT_step"} :
       ~ CASE c = "C09_max_principle" -> \A k \in 1..(Len(F) - 1) : MaxPrinciple(F[k], F[k + 1])
           [] c = "C09_tvd" -> \A k \in 1..(Len(F) - 1) : TVD(F[k], F[k + 1])
           [] c = "DRIFT_step" -> (r.specable = 1) =>
                \A k \in 1..(Len(F) - 1) :
                   F[k + 1] = StepOf(r.integ, xf, F[k], DtOf(xf, F[k], model, cfl), r.recon, model, {})}
FailedTok(r) ==
  {c \in {"C09_max_principle", "C09_tvd", "C09_finite"} :
     ~ CASE c = "C09_max_principle" -> \A k \in 1..Len(r.dmax) : r.dmax[k] <= TolRoundoff /\ r.dmin[k] <= TolRoundoff
         [] c = "C09_tvd" -> \A k \in 1..Len(r.dtv) : r.dtv[k] <= TolRoundoff
         [] c = "C09_finite" -> r.finite = 1}
Failed(r) == CASE r.kind = "exact" -> FailedExact(r) [] r.kind = "tok" -> FailedTok(r)
               [] r.kind = "raised" -> {"C09_raised"} [] OTHER -> {"unknown_record"}
Init == i = 0 /\ bad = <<>>
Step == /\ i < Len(Recs) /\ i' = i + 1
        /\ bad' = bad \o SetToSeq({[id |-> Recs[i'].id, clause |-> c] : c \in Failed(Recs[i'])})
Fin  == /\ i = Len(Recs) /\ ndJsonSerialize(IOEnv.JUDGE_OUT, bad) /\ PrintT(<<"JUDGED", i, Len(bad)>>)
        /\ i' = i + 1 /\ bad' = bad
Next == Step \/ Fin
Spec == Init /\ [][Next]_<<i, bad>>
=============================================================================
