----------------------------- MODULE Judge_Model -----------------------------
(***************************************************************************)
(* Judge for C16 (boundary states), C17 (conversions, named variables) and  *)
(* C18 (time step) on observations of the REAL models.                      *)
(*  "var"   one named variable of one state: exact records carry the state  *)
(*          and the observed value as rationals (gamma = 3/2 or 2: TLC      *)
(*          evaluates the DEFINITION exactly); token records carry ulps     *)
(*          against the definition evaluated by the harness, the shape      *)
(*          token, the power-of-two homogeneity token;                      *)
(*  "bc"    one boundary-condition evaluation: interior state, parameters,  *)
(*          returned state; the defining clauses of Vars.tla are evaluated  *)
(*          exactly on the returned state where it is rational, by ulps     *)
(*          tokens otherwise;                                               *)
(*  "dt"    one time-step evaluation.                                       *)
(***************************************************************************)
EXTENDS Vars, Json, IOUtils, SequencesExt
TolRoundoff == 4194304
Recs == ndJsonDeserialize(IOEnv.JUDGE_IN)
VARIABLES i, bad
St(w) == [rho |-> FromPair(w[1]), u |-> FromPair(w[2]), p |-> FromPair(w[3])]

DefOf(name, gam, W) ==
  CASE name = "density" -> W.rho [] name = "pressure" -> W.p [] name = "velocity" -> W.u
    [] name = "velocitymag" -> RAbs(W.u) [] name = "massflow" -> Massflow(W)
    [] name = "kinetic-energy" -> KinEnergy(W) [] name = "kinetic_energy" -> KinEnergy(W)
    [] name = "enthalpy" -> Enthalpy(gam, W) [] name = "htot" -> Htot(gam, W) [] name = "rttot" -> RTtot(gam, W)
    [] name = "ptot" -> Ptot(gam, W)
    [] name = "asound2" -> C2(gam, W)              \* the harness squares the observed asound
    [] name = "mach2" -> M2(gam, W)                \* and the observed mach (|velocity|/asound >= 0 is a separate token)

FailedVar(r) ==
  {c \in {"C17_definition", "C17_mach_nonnegative", "C17_shape", "C17_homogeneous", "C17_roundtrip", "C17_finite"} :
     ~ CASE c = "C17_definition" ->
              /\ r.defulps <= TolRoundoff
              /\ (r.exact = 1 => FromPair(r.value) = DefOf(r.name, FromPair(r.gam), St(r.state)))
         [] c = "C17_mach_nonnegative" -> r.machneg = 0
         [] c = "C17_shape" -> r.shape = 1
         [] c = "C17_homogeneous" -> r.homog = 0
         [] c = "C17_roundtrip" -> r.roundtrip <= TolRoundoff
         [] c = "C17_finite" -> r.finite = 1}

Prm(r) == [ptot |-> FromPair(r.prm[1]), rttot |-> FromPair(r.prm[2]), p |-> FromPair(r.prm[3])]
FailedBc(r) ==
  {c \in {"C16_definition", "C16_direction", "C16_exact"} :
     ~ CASE c = "C16_definition" -> \A k \in 1..Len(r.toks) : r.toks[k] <= TolRoundoff      \* each defining quantity, in ulps
         [] c = "C16_direction" -> r.dirok = 1
         [] c = "C16_exact" ->
              (r.exact = 1) =>
                 LET g == FromPair(r.gam) I == St(r.I) B == St(r.B) IN
                 CASE r.bc = "insub" -> BcInsub(g, r.dir, I, B, Prm(r))
                   [] r.bc = "insup" -> BcInsup(g, r.dir, I, B, Prm(r))
                   [] r.bc \in {"outsub", "outsub_prim"} -> BcOutsub(g, r.dir, I, B, Prm(r))
                   [] r.bc = "outsub_qtot" -> BcOutsubQtot(g, r.dir, I, B, Prm(r))
                   [] r.bc = "outsup" -> BcOutsup(I, B)
                   [] r.bc = "sym" -> BcSym(I, B)
                   [] OTHER -> TRUE}

FailedDt(r) ==
  {c \in {"C18_definition", "C18_positive", "C18_linear", "C18_local", "C18_exact", "C18_cells"} :
     ~ CASE c = "C18_definition" -> r.defulps <= TolRoundoff
         [] c = "C18_positive" -> r.positive = 1
         [] c = "C18_linear" -> r.linear = 0          \* bitwise in cfl and cell size for power-of-two factors
         [] c = "C18_local" -> r.local = 0            \* perturbing another cell leaves this entry bit-identical
         [] c = "C18_cells" -> r.cells = 0            \* with rhs == 1 every unknown of cell i advanced by min(dt) / by dt_i (dtlocal)
         [] c = "C18_exact" ->                        \* dt = cfl * h / (|u| + c) with rational c (exact points)
              (r.exact = 1) => FromPair(r.dt) = RDiv(RMul(FromPair(r.cfl), FromPair(r.h)), RAdd(RAbs(FromPair(r.u)), FromPair(r.c)))}

Failed(r) == CASE r.kind = "var" -> FailedVar(r) [] r.kind = "bc" -> FailedBc(r) [] r.kind = "dt" -> FailedDt(r)
               [] r.kind = "raised" -> {"C16_raised", "C17_raised", "C18_raised"} [] OTHER -> {"unknown_record"}
Init == i = 0 /\ bad = <<>>
Step == /\ i < Len(Recs) /\ i' = i + 1
        /\ bad' = bad \o SetToSeq({[id |-> Recs[i'].id, clause |-> c] : c \in Failed(Recs[i'])})
Fin  == /\ i = Len(Recs) /\ ndJsonSerialize(IOEnv.JUDGE_OUT, bad) /\ PrintT(<<"JUDGED", i, Len(bad)>>)
        /\ i' = i + 1 /\ bad' = bad
Next == Step \/ Fin
Spec == Init /\ [][Next]_<<i, bad>>
=============================================================================
