#!/bin/bash
# usage: tools/refactor_eval.sh <worktree> [checks...]   -- every quick check against a (supposedly behaviour-preserving) variant
WT=$1; shift
CHECKS=${@:-C01 C02 C03 C05 C06 C07 C08 C09 C10 C11 C12 C13 C14 C15 C16 C17 C18 C19 C20}
cd /verif
for c in $CHECKS; do
  FLOWDYN_REPO=$WT ./check $c --tier quick 2>&1 | grep "VIOLATION\|quick:\|MACHINERY\|DRIFT" | sed 's/replay=[^ ]*//' | cut -c1-230 | sort | uniq | head -8
done
