---------------------------- MODULE Apa_Implicit ----------------------------
(***************************************************************************)
(* C06, "no growth for Re z <= 0 at any CFL", for ALL z (symbolic,          *)
(* Apalache + Z3) instead of the dyadic grid of MC_Implicit:                *)
(*   z = (x + i y)/d, d > 0 (any rational point of the complex plane)       *)
(*   implicit       R(z) = 1/(1 - z)            |R|^2 = d^2 / |d - z d|^2   *)
(*   cranknicolson  R(z) = (1 + z/2)/(1 - z/2)                              *)
(* stated on squared moduli, cross-multiplied.  Also: both are consistent   *)
(* (R(0) = 1), the implicit scheme is damping strictly inside the left      *)
(* half plane, Crank-Nicolson preserves the modulus exactly on the          *)
(* imaginary axis (pure convection with centered fluxes).                   *)
(* (BDF2's root condition is left to the dyadic grid of MC_Implicit.)       *)
(* Teeth: the explicit Euler factor 1 + z does grow somewhere in the left   *)
(* half plane (InvBadExplicit must be refuted).                             *)
(***************************************************************************)
EXTENDS Integers
VARIABLES
  \* @type: Int;
  x,
  \* @type: Int;
  y,
  \* @type: Int;
  d

Init == x \in Int /\ y \in Int /\ d \in Int
Next == UNCHANGED <<x, y, d>>

(* |1 - z|^2 d^2 = (d - x)^2 + y^2 ;  |1 + z/2|^2 4 d^2 = (2d + x)^2 + y^2 ;  |1 - z/2|^2 4 d^2 = (2d - x)^2 + y^2 *)
InvImplicitNoGrowth == (d > 0 /\ x <= 0) => d * d <= (d - x) * (d - x) + y * y
InvImplicitDamps    == (d > 0 /\ x < 0) => d * d < (d - x) * (d - x) + y * y
InvCNNoGrowth       == (d > 0 /\ x <= 0) => (2 * d + x) * (2 * d + x) + y * y <= (2 * d - x) * (2 * d - x) + y * y
InvCNUnitary        == (d > 0 /\ x = 0) => (2 * d + x) * (2 * d + x) + y * y = (2 * d - x) * (2 * d - x) + y * y
InvCNGrowsRight     == (d > 0 /\ x > 0) => (2 * d + x) * (2 * d + x) + y * y > (2 * d - x) * (2 * d - x) + y * y
InvBadExplicit == (d > 0 /\ x <= 0) => (d + x) * (d + x) + y * y <= d * d
=============================================================================
