------------------------------ MODULE Judge_RK ------------------------------
(***************************************************************************)
(* C05 judge.  Each record is the tableau REALISED by one execution of the  *)
(* real `step` of an explicit integrator class on formal symbols (the       *)
(* harness ran the unmodified code in a free algebra: the field holds the   *)
(* symbol y, every RHS call returns a fresh symbol k_j): for every RHS the  *)
(* step computes y + dt * sum_j b_j k_j and presents y + dt * sum a_ij k_j  *)
(* at time t + cpres_i * dt.  TLC evaluates the property-level predicates   *)
(* of RK.tla on it, exactly.                                                *)
(***************************************************************************)
EXTENDS RK, Json, IOUtils, SequencesExt

Recs == ndJsonDeserialize(IOEnv.JUDGE_IN)
VARIABLES i, bad

Tabl(r) == [A |-> MatFrom(r.A), b |-> VecFrom(r.b), c |-> [k \in 1..Len(r.b) |-> RSum(VecFrom(r.A[k]))]]
CPres(r) == VecFrom(r.cpres)

Failed(r) ==
  LET T == Tabl(r)
      p == Nominal[r.cls]
  IN {c \in {"C05_explicit_rk", "C05_weights", "C05_order", "C05_stage_time", "C05_time_advance", "C05_ssp",
              "C05_stability_poly", "DRIFT_tableau", "DRIFT_propagator"} :
       ~ CASE c = "C05_explicit_rk"  -> Explicit(T) /\ r.affine                  \* lower triangular, y-coefficients all 1
           [] c = "C05_weights"      -> WeightsSumToOne(T)
           [] c = "C05_order"        -> OrderAtLeast(T, p)
           [] c = "C05_stage_time"   -> \A k \in 1..S(T) : CPres(r)[k] = T.c[k]  \* presented time = t + c_i dt
           [] c = "C05_time_advance" -> FromPair(r.tend) = One                   \* by dt (by min(dt) for an array)
           [] c = "C05_ssp"          -> (r.cls \in MustBeSSP) => SSP1(T)
           [] c = "C05_stability_poly" ->
                  CASE r.cls = "lsrk25bb" -> r.poly # <<>> => PolyClose(r.poly, BB5, 5000)
                    [] r.cls = "lsrk26bb" -> r.poly # <<>> => PolyClose(r.poly, BB6, 5000)
                    [] r.cls = "lsrk4"    -> (r.poly # <<>> => PolyClose(r.poly, TAY4, 5)) /\ (r.exact => TaylorTo(T, 4))
                    [] OTHER -> TRUE
           [] c = "DRIFT_tableau"    -> (r.cls \in DOMAIN CodeTableaux /\ r.exact) =>
                                           (T.A = CodeTableaux[r.cls].A /\ T.b = CodeTableaux[r.cls].b)
           \* timemodel.propagator(z) (the API behind cflmax) is the stability polynomial of the SAME tableau the step realises:
           \* 1 + sum_k gamma_k z^k, at dyadic real z (outside the listed properties: informational)
           [] c = "DRIFT_propagator" -> r.exact =>
                  \A k \in 1..Len(r.prop) :
                     LET z == FromPair(r.prop[k][1]) IN
                     FromPair(r.prop[k][2]) = RAdd(One, RSum([j \in 1..S(T) |-> RMul(Gamma(T, j), RPow(z, j))]))}

Init == i = 0 /\ bad = <<>>
Step == /\ i < Len(Recs) /\ i' = i + 1
        /\ bad' = bad \o SetToSeq({[id |-> Recs[i'].id, clause |-> c] : c \in Failed(Recs[i'])})
Fin  == /\ i = Len(Recs) /\ ndJsonSerialize(IOEnv.JUDGE_OUT, bad) /\ PrintT(<<"JUDGED", i, Len(bad)>>)
        /\ i' = i + 1 /\ bad' = bad
Next == Step \/ Fin
Spec == Init /\ [][Next]_<<i, bad>>
=============================================================================
