-------------------------------- MODULE Mesh --------------------------------
(***************************************************************************)
(* flowdyn meshes (mesh.py, mesh2d.py, meshbase.py) in exact arithmetic and *)
(* the partition / connectivity axioms of C20.                              *)
(*  1D: a mesh is its tuple of faces xf (rationals), index 1..n+1.          *)
(*  2D: cartesian nx x ny; cells row-wise (id = nx*j + i, 0-based);         *)
(*      faces: i-faces (nx+1)*ny first, then j-faces nx*(ny+1).             *)
(***************************************************************************)
EXTENDS Rat

(* ------------------------------------------------------------------ 1D *)
Uni(n, L, x0) == [i \in 1..(n + 1) |-> RAdd(x0, RMul(L, Q(i - 1, n)))]

(* refinedmesh(ncell, length, ratio, a, b): nc1 = floor(n a / (a+b)) cells of size dx1, then nc2 cells up to length *)
Refined(n, L, ratio, a, b) ==
  LET dx1 == RDiv(RMul(R(a + b), L), RMul(RAdd(R(a), RMul(ratio, R(b))), R(n)))
      nc1 == (n * a) \div (a + b)
      nc2 == n - nc1
      xm  == RMul(dx1, R(nc1))
  IN [i \in 1..(n + 1) |-> IF i <= nc1 THEN RMul(dx1, R(i - 1))
                           ELSE IF nc2 = 0 THEN L ELSE RAdd(xm, RMul(RSub(L, xm), Q(i - 1 - nc1, nc2)))]

NC(xf) == Len(xf) - 1
Vol(xf) == [i \in 1..NC(xf) |-> RSub(xf[i + 1], xf[i])]
Xc(xf) == [i \in 1..NC(xf) |-> RMul(Half, RAdd(xf[i], xf[i + 1]))]
Increasing(xf) == \A i \in 1..NC(xf) : RLt(xf[i], xf[i + 1])
Spans(xf, lo, hi) == xf[1] = lo /\ xf[Len(xf)] = hi
VolumesSumTo(xf, L) == RSum(Vol(xf)) = L
AvgOfConst(xf, c) == RDiv(RSum([i \in 1..NC(xf) |-> RMul(c, Vol(xf)[i])]), RSum(Vol(xf))) = c
ValidPartition(xf, lo, hi) == /\ Increasing(xf) /\ Spans(xf, lo, hi) /\ VolumesSumTo(xf, RSub(hi, lo))
                              /\ \A i \in 1..NC(xf) : RLt(Zero, Vol(xf)[i])
(* two uniform zones with the requested ratio (when nc1, nc2 >= 1) *)
TwoZones(xf, nc1, ratio) ==
  LET v == Vol(xf) n == NC(xf) IN
  /\ \A i \in 1..nc1 : v[i] = v[1]
  /\ \A i \in (nc1 + 1)..n : v[i] = v[n]
  /\ (nc1 >= 1 /\ nc1 < n) => v[n] = RMul(ratio, v[1])

(* ------------------------------------------------------------------ 2D *)
NFaces(nx, ny) == (nx + 1) * ny + nx * (ny + 1)
FShift(nx, ny) == (nx + 1) * ny
(* incidence of face f (0-based): <<left cell, right cell>> with -1 where there is no cell *)
Incidence(nx, ny, f) ==
  IF f < FShift(nx, ny)
  THEN LET j == f \div (nx + 1) i == f % (nx + 1) IN
       <<IF i > 0 THEN nx * j + (i - 1) ELSE -1, IF i < nx THEN nx * j + i ELSE -1>>
  ELSE LET g == f - FShift(nx, ny) j == g \div nx i == g % nx IN
       <<IF j > 0 THEN nx * (j - 1) + i ELSE -1, IF j < ny THEN nx * j + i ELSE -1>>
BoundaryFaces(nx, ny) == {f \in 0..(NFaces(nx, ny) - 1) : -1 \in {Incidence(nx, ny, f)[1], Incidence(nx, ny, f)[2]}}
Tags == {"left", "right", "bottom", "top"}
IoBc(nx, ny, tag) == CASE tag = "left"   -> {j * (nx + 1) : j \in 0..(ny - 1)}
                       [] tag = "right"  -> {(j + 1) * (nx + 1) - 1 : j \in 0..(ny - 1)}
                       [] tag = "bottom" -> {FShift(nx, ny) + i : i \in 0..(nx - 1)}
                       [] tag = "top"    -> {FShift(nx, ny) + ny * nx + i : i \in 0..(nx - 1)}
Orient(tag) == IF tag \in {"left", "bottom"} THEN "inward" ELSE "outward"
(* unit normal of the faces of a tag, pointing from the left state to the right state of the face, sign by orientation *)
Normal(tag) == CASE tag = "left" -> <<-1, 0>> [] tag = "right" -> <<1, 0>> [] tag = "bottom" -> <<0, -1>> [] tag = "top" -> <<0, 1>>

(* the axioms, stated on ANY tables T (tag -> set of faces), orientations O and normals Nm against an incidence Inc *)
Disjoint(T) == \A s, t \in Tags : s # t => T[s] \cap T[t] = {}
Covers(T, bnd) == UNION {T[t] : t \in Tags} = bnd
OrientationOK(T, O, Inc) == \A t \in Tags : \A f \in T[t] :
                               (O[t] = "inward" <=> Inc[f][1] = -1) /\ (O[t] = "outward" <=> Inc[f][2] = -1)
(* the normal is the unit axis vector of the face family (x for i-faces, y for j-faces), pointing out of the domain for
   outward tags and into ... the code's convention: dir = +axis for outward faces, -axis for inward faces *)
NormalOK(T, O, Nm, nx, ny) == \A t \in Tags : \A f \in T[t] :
                                LET axis == IF f < FShift(nx, ny) THEN <<1, 0>> ELSE <<0, 1>>
                                    s == IF O[t] = "inward" THEN -1 ELSE 1
                                IN Nm[t] = <<s * axis[1], s * axis[2]>>
=============================================================================
