SPECIFICATION Spec
CONSTANTS
  Vals <- ValsQ
  Times <- TimesQ
  MaxFld = 4
  MaxArr = 9
  MaxOps = 8
  FieldDeviations = {}
INVARIANT NoAlias
INVARIANT ListView
INVARIANT Export
CHECK_DEADLOCK FALSE
