"""C20 meshes: Mesh.tla model checked exhaustively (1D partitions, refined zones, 2D boundary tables vs incidence);
real constructors judged by TLC on exact tokens / integer tables / incidence observed from the real 2D reconstruction."""
import math, os, random, sys
from fractions import Fraction
import numpy as np
from . import core, fd
from .core import Report


def F(x):
    return Fraction(float(x))


def rec_1d(kind, m, ncell, lo, hi, extra):
    try:
        _decoys = [fd.mesh.unimesh(ncell=ncell + 3, length=7.0, x0=-2.0), fd.mesh.refinedmesh(ncell=ncell + 5, length=0.3, ratio=3.0)]
        return _rec_1d(kind, m, ncell, lo, hi, extra)
    except Exception as ex:      # e.g. non-finite faces: an observation about the mesh, not a harness failure
        return dict(kind="raised", dim=1, what="%s: %s" % (type(ex).__name__, str(ex)[:100]), mesh=kind, ncell=ncell)


def _rec_1d(kind, m, ncell, lo, hi, extra):
    xf = np.asarray(m.xf, dtype=float)
    vol = np.asarray(m.vol(), dtype=float)
    xc = np.asarray(m.centers(), dtype=float)
    span = float(xf[-1] - xf[0]) if len(xf) else 0.0
    scale = max(abs(float(hi)), abs(float(lo)), abs(span), 1e-300)
    r = dict(dim=1, kind=kind, ncell=ncell, nfaces=int(len(xf)), ncells_attr=int(m.ncell),
             inc=1 if all(xf[i] < xf[i + 1] for i in range(len(xf) - 1)) else 0,
             lo=core.ulps(xf[0], lo, scale), hi=core.ulps(xf[-1], hi, scale),
             xc=max([core.ulps(xc[i], (F(xf[i]) + F(xf[i + 1])) / 2, max(abs(xc[i]), scale * 1e-3)) for i in range(len(xc))] or [0])
             if len(xc) == len(xf) - 1 else core.ULP_CAP,
             # (cell sizes through both public ways in, vol() and dx(); centres through centers() and the xc attribute)
             volpos=1 if (len(vol) == ncell and bool(np.all(vol > 0)) and np.array_equal(np.asarray(m.dx(), dtype=float), vol)
                          and np.array_equal(np.asarray(getattr(m, "xc", xc), dtype=float), xc)) else 0,
             volsum=core.ulps(sum(F(v) for v in vol), F(xf[-1]) - F(xf[0]), max(abs(span), 1e-300)),
             len=core.ulps(m.length, F(xf[-1]) - F(xf[0]), max(abs(span), 1e-300)),
             avg=core.ulps(m.average(np.full(ncell, 2.75)), 2.75, 2.75) if len(vol) == ncell else core.ULP_CAP,
             z1=0, z2=0, ratio=0, whole=0, exact=0, xf=[], L=[1, 1], x0=[0, 1], rr=[1, 1], a=1, b=1)
    r.update(extra)
    return r


def cases_1d(rep, rnd, tier):
    recs = []
    ns = [1, 2, 3, 5, 8, 16, 50] if tier == "quick" else [1, 2, 3, 4, 5, 6, 7, 8, 9, 10, 16, 31, 50, 100, 257]
    for n in ns:
        for L, x0 in [(1.0, 0.0), (2.0, -1.0), (0.5, 0.25), (3.0, 10.0), (0.1, 0.3), (1e-6, 0.0), (1e6, -3e5), (7.0 / 3.0, 1.0 / 3.0)]:
            m = fd.mesh.unimesh(ncell=n, length=L, x0=x0)
            ex = {}
            if all(core.fits(Fraction(v)) for v in (L, x0)) and n <= 64 and all(core.fits(F(x)) for x in m.xf) \
                    and Fraction(L).denominator <= 64 and Fraction(x0).denominator <= 64 and (n & (n - 1)) == 0:
                ex = dict(exact=1, xf=[core.rat(F(x)) for x in m.xf], L=core.rat(L), x0=core.rat(x0))
            recs.append(rec_1d("uni", m, n, x0, F(x0) + F(L), ex))
            rep.nontrivial.add(("uni", n, L, x0))
        for ratio in [0.5, 1.0, 2.0, 3.0, 0.3]:
            for (a, b) in [(1, 1), (1, 2), (2, 1), (1, 3), (3, 5)]:
                L = rnd.choice([1.0, 2.0, 0.75])
                m = fd.mesh.refinedmesh(ncell=n, length=L, ratio=ratio, nratioa=a, nratiob=b)
                vol = np.asarray(m.vol(), dtype=float)
                nc1 = int((n * a) / (a + b))
                whole = 1 if (n * a) % (a + b) == 0 and 0 < nc1 < n else 0
                ex = dict(whole=whole, a=a, b=b)
                if len(vol) == n and n >= 1:
                    v1 = vol[:nc1]
                    v2 = vol[nc1:]
                    sc = float(np.max(np.abs(np.asarray(m.xf))))
                    ex["z1"] = max([core.ulps(v, v1[0], sc) for v in v1] or [0])
                    ex["z2"] = max([core.ulps(v, v2[0], sc) for v in v2] or [0])
                    if whole:
                        ex["ratio"] = core.ulps(v2[0] / v1[0], ratio, ratio * max(1.0, sc / min(v1[0], v2[0])))
                if ratio in (0.5, 1.0, 2.0) and (a, b) in ((1, 1), (1, 3)) and (n & (n - 1)) == 0 and n >= 4 and L in (1.0, 2.0):
                    if all(core.fits(F(x)) for x in m.xf):
                        ex.update(exact=1, xf=[core.rat(F(x)) for x in m.xf], L=core.rat(L), rr=core.rat(ratio))
                recs.append(rec_1d("refined", m, n, 0.0, L, ex))
                rep.nontrivial.add(("refined", n, ratio, a, b, L))
    # whole-number proportions: EVERY (a, b) <= 10 and ncell = k (a + b): the first zone holds exactly k a cells (an integer the
    # code must not lose to float rounding of a/(a+b)) and the size ratio is the requested one
    props = [(a, b, k) for a in range(1, 11) for b in range(1, 11) for k in range(1, 41)]
    if tier == "quick":
        props = [t for t in props if t[2] <= 3] + rnd.sample(props, 900)
    for (a, b, k) in props:
        n = k * (a + b)
        ratio = [2.0, 0.5, 3.0][(a + b + k) % 3]
        m = fd.mesh.refinedmesh(ncell=n, length=1.0, ratio=ratio, nratioa=a, nratiob=b)
        vol = np.asarray(m.vol(), dtype=float)
        nc1 = k * a
        ex = dict(whole=1, a=a, b=b)
        if len(vol) == n:
            v1, v2 = vol[:nc1], vol[nc1:]
            sc = float(np.max(np.abs(np.asarray(m.xf))))
            ex["z1"] = max([core.ulps(v, v1[0], sc) for v in v1] or [0])
            ex["z2"] = max([core.ulps(v, v2[0], sc) for v in v2] or [0])
            ex["ratio"] = core.ulps(v2[0] / v1[0], ratio, ratio * max(1.0, sc / min(v1[0], v2[0])))
        recs.append(rec_1d("refined", m, n, 0.0, 1.0, ex))
        rep.nontrivial.add(("refined-whole", n, ratio, a, b))
    for n in ns:
        morphs = [("id", lambda x: x), ("quad", lambda x: x + 0.3 * x * (1.0 - x)), ("stretch", lambda x: 2.0 * x),
                  ("shift", lambda x: x + 1.5), ("cube", lambda x: x ** 3 + x), ("exp", lambda x: np.exp(x) - 1.0)]
        for name, mf in morphs:
            L, x0 = rnd.choice([(1.0, 0.0), (2.0, 0.0), (1.0, 0.5)])
            m = fd.mesh.morphedmesh(ncell=n, length=L, x0=x0, morph=mf)
            lo = float(mf(np.array([x0]))[0])
            hi = float(mf(np.array([x0 + L]))[0])
            recs.append(rec_1d("morphed", m, n, lo, hi, {"morph": name}))
            rep.nontrivial.add(("morphed", n, name, L, x0))
    return recs


def rec_2d(nx, ny, lx, ly):
    try:
        return _rec_2d(nx, ny, lx, ly)
    except Exception as ex:
        return dict(kind="raised", dim=2, what="%s: %s" % (type(ex).__name__, str(ex)[:100]), nx=nx, ny=ny)


def _rec_2d(nx, ny, lx, ly):
    from .driver_obs import FakeModel
    m = fd.mesh2d.mesh2d(nx, ny, lx, ly)
    # meshes live among other meshes: two more of other sizes are built AFTER the one that is judged (a mesh answers for its own
    # numbers, whatever other meshes exist)
    _decoys = [fd.mesh2d.mesh2d(nx + 1, ny + 2, 1.0, 1.0), fd.mesh2d.mesh2d(max(1, ny - 1), nx + 3, 2.0, 0.5)]
    model = FakeModel()
    cells = np.arange(1, nx * ny + 1, dtype=float)
    f = fd.field.fdata(model, m, [cells])
    num = fd.xnum.extrapol2d1()
    L, R = num.interp_face(m, [cells], f, 1)
    incL = [int(v) - 1 for v in L[0]]
    incR = [int(v) - 1 for v in R[0]]
    tables, orient, normals = {}, {}, {}
    unit = 1
    for t in ("left", "right", "bottom", "top"):
        tables[t] = [int(v) for v in m.index_of_bc(t)]
        orient[t] = str(m.bcface_orientation(t))
        nm = np.asarray(m.normal_of_bc(t), dtype=float)
        cols = {(float(nm[0, k]), float(nm[1, k])) for k in range(nm.shape[1])}
        if len(cols) != 1 or nm.shape[1] != len(tables[t]):
            unit = 0
            normals[t] = [0, 0]
        else:
            c = cols.pop()
            if c[0] != int(c[0]) or c[1] != int(c[1]):
                unit = 0
            normals[t] = [int(c[0]), int(c[1])]
    vol = np.asarray(m.vol(), dtype=float)
    dx, dy = F(lx) / nx, F(ly) / ny
    xx, yy = m.centers()
    cen = 0
    for j in range(ny):
        for i in range(nx):
            k = nx * j + i
            cen = max(cen, core.ulps(xx[k], (i + Fraction(1, 2)) * dx, float(lx)), core.ulps(yy[k], (j + Fraction(1, 2)) * dy, float(ly)))
    return dict(dim=2, kind="2d", nx=nx, ny=ny, ncell=int(m.ncell), nbfaces=int(m.nbfaces()), nvol=int(len(vol)),
                vol=max([core.ulps(v, dx * dy, float(dx * dy)) for v in vol] or [core.ULP_CAP]),
                centers=cen if len(xx) == nx * ny else core.ULP_CAP,
                tables=tables, orient=orient, normals=normals, normunit=unit, incL=incL, incR=incR, lx=lx, ly=ly)


def run(tier):
    rep = Report("C20", tier)
    rep.rule = ("model: every uniform/refined mesh with ncell<=MaxN on a parameter lattice and every nx,ny<=MaxNx; code: real "
                "constructors over sizes/lengths/origins/ratios/proportions/morphings and all nx,ny<=12; distinct = constructor arguments")
    rep.assumptions = ["positions produced by linspace / a morphing are compared within 8 ulp of the domain scale",
                       "the 2D face<->cell incidence is the one observed from the real extrapol2d1 on cell-index data"]
    res = core.tlc("MC_Mesh", "MC_Mesh.cfg" if tier == "quick" else "MC_Mesh_f.cfg", workers=8, timeout=2400)
    core.tlc_must_pass(res, "MC_Mesh")
    rep.add_tlc("MC_Mesh", res)
    rep.exhaustive = True
    core.apalache_suite(rep, "Apa_Mesh", ["InvCounts", "InvPositive", "InvRatio", "InvSpans"],
                        "model level, beyond the lattice: Apa_Mesh.tla proves with Apalache/Z3 that refinedmesh splits the cells, has "
                        "positive cell sizes in both zones and spans the domain for EVERY cell count, proportion and ratio, and has "
                        "exactly the requested cell-size ratio for every whole proportion")
    rnd = random.Random(core.seed())
    recs = cases_1d(rep, rnd, tier)
    mx = 7 if tier == "quick" else 12
    for nx in range(1, mx + 1):
        for ny in range(1, mx + 1):
            lx, ly = rnd.choice([(1.0, 1.0), (2.0, 0.5), (3.0, 1.0), (0.7, 1.3)])
            recs.append(rec_2d(nx, ny, lx, ly))
            rep.nontrivial.add(("2d", nx, ny, lx, ly))
    for k, r in enumerate(recs):
        r["id"] = k + 1
    rep.evaluations = len(recs)
    for kind in ("uni", "refined", "morphed"):
        ss = [r for r in recs if r.get("kind") == kind]
        if ss:
            rep.sample(ss[min(2, len(ss) - 1)])
    ss = [r for r in recs if r.get("dim") == 2 and r.get("kind") != "raised"]
    if ss:
        rep.sample(ss[min(5, len(ss) - 1)])
    wd = core.scratch("c20")
    bad, jr = core.judge("Judge_Mesh", recs, wd, unjudgeable="C20_unjudgeable")
    rep.add_tlc("Judge_Mesh", jr, counts_as_model=False)
    rep.traces = len(recs)
    byid = {r["id"]: r for r in recs}
    for b in bad:
        r = byid[b["id"]]
        if b["clause"].startswith("DRIFT"):
            rep.drift.append("%s: %s differs from the transcription in Mesh.tla" % (b["clause"], {k: r.get(k) for k in ("kind", "ncell", "nx", "ny")}))
            continue
        sig = {"kind": r.get("kind", "2d"), "morph": r.get("morph", "")}
        rep.violation(b["clause"], sig, r)
    return rep.finish()


if __name__ == "__main__":
    sys.exit(run(os.environ.get("VERIF_TIER", "quick")))
