--------------------------- MODULE Apa_Positivity ---------------------------
(***************************************************************************)
(* C10, depth / density positivity of the first-order Rusanov and HLL       *)
(* schemes for EVERY data set, EVERY wave-speed estimate that bounds the    *)
(* velocities, and EVERY Courant number up to the one claimed (symbolic,    *)
(* Apalache + Z3), where MC_Positivity enumerates triples of an exact-point *)
(* grid.  Cells 0, 1, 2 with depths (densities) h_i > 0 and velocities u_i  *)
(* (momenta h_i u_i); nu = dt/dx = p/q.                                     *)
(*                                                                         *)
(* Rusanov: interface speeds sl (cells 0|1), sr (cells 1|2) with            *)
(*   sl >= |u0|, |u1| and sr >= |u1|, |u2| (the code: max(|u| + c));        *)
(*   nu sl <= 1/2, nu sr <= 1/2 (CFL <= 1/2 with the global step)  ==>      *)
(*   h1' >= h1 / 2 > 0.                                                     *)
(* HLL (two-wave, clipped speeds): per interface aL <= 0 <= aR with         *)
(*   aL <= u (left state), aR >= u (right state) -- all the proof needs of  *)
(*   the estimates u -+ c;  nu max(-aL, aR) <= 1/2  ==>  h1' > 0.           *)
(* The mass flux only is needed: pressure never enters.                     *)
(* Teeth: at nu s <= 2 (four times the claimed CFL) Rusanov can lose the     *)
(* sign (InvBadCfl must be refuted).                                        *)
(***************************************************************************)
EXTENDS Integers
VARIABLES
  \* @type: Int;
  h0,
  \* @type: Int;
  h1,
  \* @type: Int;
  h2,
  \* @type: Int;
  u0,
  \* @type: Int;
  u1,
  \* @type: Int;
  u2,
  \* @type: Int;
  sl,
  \* @type: Int;
  sr,
  \* @type: Int;
  aL,
  \* @type: Int;
  aR,
  \* @type: Int;
  bL,
  \* @type: Int;
  bR,
  \* @type: Int;
  p,
  \* @type: Int;
  q

Abs(x) == IF x < 0 THEN -x ELSE x
Init == /\ h0 \in Int /\ h1 \in Int /\ h2 \in Int /\ u0 \in Int /\ u1 \in Int /\ u2 \in Int
        /\ sl \in Int /\ sr \in Int /\ aL \in Int /\ aR \in Int /\ bL \in Int /\ bR \in Int /\ p \in Int /\ q \in Int
Next == UNCHANGED <<h0, h1, h2, u0, u1, u2, sl, sr, aL, aR, bL, bR, p, q>>

Pos == h0 > 0 /\ h1 > 0 /\ h2 > 0 /\ q > 0 /\ p >= 0
(* Rusanov mass flux, doubled: 2 F(a|b) = ha ua + hb ub - s (hb - ha) *)
Rus2(ha, ua, hb, ub, s) == ha * ua + hb * ub - s * (hb - ha)
(* 2 q h1' = 2 q h1 - p (2 F(1|2) - 2 F(0|1)) *)
RusNew2q == 2 * q * h1 - p * (Rus2(h1, u1, h2, u2, sr) - Rus2(h0, u0, h1, u1, sl))
RusSpeeds == sl >= Abs(u0) /\ sl >= Abs(u1) /\ sr >= Abs(u1) /\ sr >= Abs(u2)
InvRusanov == (Pos /\ RusSpeeds /\ 2 * p * sl <= q /\ 2 * p * sr <= q) => RusNew2q >= q * h1
InvBadCfl == (Pos /\ RusSpeeds /\ p * sl <= 2 * q /\ p * sr <= 2 * q) => RusNew2q > 0

(* HLL mass flux: F(a|b) = N / D, N = xR ha ua - xL hb ub + xL xR (hb - ha), D = xR - xL > 0 *)
HllN(ha, ua, hb, ub, xL, xR) == xR * ha * ua - xL * hb * ub + xL * xR * (hb - ha)
(* interface 0|1 has speeds (aL, aR), interface 1|2 has (bL, bR) *)
HllSpeeds == /\ aL <= 0 /\ 0 <= aR /\ aR - aL > 0 /\ aL <= u0 /\ aL <= u1 /\ aR >= u0 /\ aR >= u1
             /\ bL <= 0 /\ 0 <= bR /\ bR - bL > 0 /\ bL <= u1 /\ bL <= u2 /\ bR >= u1 /\ bR >= u2
HllCfl == 2 * p * aR <= q /\ 2 * p * (-aL) <= q /\ 2 * p * bR <= q /\ 2 * p * (-bL) <= q
(* q D0 D1 h1' = q D0 D1 h1 - p (N1 D0 - N0 D1),  D0 = aR - aL, D1 = bR - bL *)
InvHll == (Pos /\ HllSpeeds /\ HllCfl) =>
            q * (aR - aL) * (bR - bL) * h1
              - p * (HllN(h1, u1, h2, u2, bL, bR) * (aR - aL) - HllN(h0, u0, h1, u1, aL, aR) * (bR - bL)) > 0
(* teeth for the HLL clause: at four times the claimed Courant number the depth can be lost *)
HllCflBad == p * aR <= 2 * q /\ p * (-aL) <= 2 * q /\ p * bR <= 2 * q /\ p * (-bL) <= 2 * q
InvBadHll == (Pos /\ HllSpeeds /\ HllCflBad) =>
            q * (aR - aL) * (bR - bL) * h1
              - p * (HllN(h1, u1, h2, u2, bL, bR) * (aR - aL) - HllN(h0, u0, h1, u1, aL, aR) * (bR - bL)) > 0
=============================================================================
