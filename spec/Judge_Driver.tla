---------------------------- MODULE Judge_Driver ----------------------------
(***************************************************************************)
(* Conformance judge for C07 / C08 / C18(ii): evaluates the property-level *)
(* clauses of Contract.tla on observation records projected from runs of   *)
(* the REAL flowdyn driver (harness/driver_obs.py), one TLC step per       *)
(* record, total verdicts (every failed clause of every record is kept).   *)
(*                                                                         *)
(* A record is either a single call (kind = "call") or a family of calls    *)
(* whose outcomes are related (kind = "family"): data are hash-consed to    *)
(* small integers by exact bit pattern, so bitwise equality of fields       *)
(* between two histories is integer equality here.                          *)
(***************************************************************************)
EXTENDS Integers, Sequences, FiniteSets, TLC, Json, IOUtils, SequencesExt, Functions

C == INSTANCE Contract

Recs == ndJsonDeserialize(IOEnv.JUDGE_IN)

VARIABLES i, bad

SetOf(sq) == {sq[k] : k \in 1..Len(sq)}
Pairs(sq) == {<<sq[k][1], sq[k][2]>> : k \in 1..Len(sq)}

(* JSON -> the observation record of Contract *)
NormRes(r) == [t |-> r.t, it |-> r.it, srcs |-> SetOf(r.srcs), fin |-> r.fin, isfinal |-> r.isfinal, id |-> r.id]
Norm(o) == [op |-> o.op, t0 |-> o.t0, it0 |-> o.it0, tsave |-> o.tsave, tot |-> o.tot, maxit |-> o.maxit,
            freqs |-> SetOf(o.freqs), nit |-> o.nit, totnit |-> o.totnit, itstart |-> o.itstart, tfin |-> o.tfin,
            traj |-> o.traj, res |-> [k \in 1..Len(o.res) |-> NormRes(o.res[k])],
            mon |-> o.mon, near |-> Pairs(o.near), trajfin |-> o.trajfin, caller |-> o.caller,
            negsteps |-> o.negsteps, idfin |-> o.idfin, dtmode |-> o.dtmode]

(* C18 (ii): with one global step every cell advances by min(dt) (checked on the data by the harness through
   rhs == 1, see driver_obs); here: the time advances by the minimum -- already C07_advance -- and with dtlocal
   the flag says each cell advanced by its own dt *)
C18_cells(o) == o.cellsok

CallFailed(o) ==
  LET n == Norm(o) IN
  IF o.op = "legacy"          \* the older driver has its own contract (clauses L_xxx, outside the listed properties)
  THEN C!FailedLegacy(n) \cup (IF o.raised = "" THEN {} ELSE {"L_raised"})
       \cup (IF C18_cells(o) THEN {} ELSE {"C18_cells"})      \* "a solve uses the minimum over cells as its global step": this one too
  ELSE
     C!FailedC07(n)
     \cup (IF C!C08_monitors(n) THEN {} ELSE {"C08_monitors"})
     \cup (IF C!C08_counters(n) THEN {} ELSE {"C08_counters"})
     \cup (IF o.pure THEN {} ELSE {"C08_pure"})
     \cup (IF C18_cells(o) THEN {} ELSE {"C18_cells"})
     \* an exception raised by flowdyn on an admissible call is a failed call, whatever else the record says
     \cup (IF o.raised = "" THEN {} ELSE {"C07_raised", "C08_raised"})

(* relations between the calls of a family (C08 i-iii) *)
Traj(o) == [k \in 1..Len(o.traj) |-> <<o.traj[k].t, o.traj[k].id>>]
Res(o)  == [k \in 1..Len(o.res) |-> <<o.res[k].t, o.res[k].it, o.res[k].id>>]

RelHolds(fam, rel) ==
  LET a == fam.calls[rel.a]
      b == fam.calls[rel.b]
  IN CASE rel.type = "same" ->          \* the same call repeated (same or fresh object): bit-identical everything
            /\ Res(a) = Res(b) /\ Traj(a) = Traj(b) /\ a.idfin = b.idfin /\ a.tfin = b.tfin /\ a.nit = b.nit
       [] rel.type = "transparent" ->   \* b adds save times and/or monitors to a: same trajectory, same final state
            /\ Traj(a) = Traj(b) /\ a.idfin = b.idfin /\ a.tfin = b.tfin /\ a.nit = b.nit
            \* ... and what is returned for a save time does not depend on the OTHER save times that were requested
            /\ \A p \in 1..Len(a.res), q \in 1..Len(b.res) :
                  (a.res[p].t = b.res[q].t /\ ~a.res[p].isfinal /\ ~b.res[q].isfinal) =>
                     (a.res[p].id = b.res[q].id /\ a.res[p].it = b.res[q].it)
       [] rel.type = "split" ->         \* a = whole run (N+M); b, c = solve N then restart M from b's returned field
            LET c == fam.calls[rel.c] IN
            /\ c.idfin = a.idfin /\ c.tfin = a.tfin
            /\ c.totnit = a.totnit /\ b.nit + c.nit = a.nit
            /\ Traj(a) = Traj(b) \o Traj(c)
            /\ (Len(c.res) = 1 /\ c.tsave = <<>>) => c.res[1].it = a.totnit
       [] OTHER -> FALSE

FamFailed(fam) ==
  UNION {CallFailed(fam.calls[k]) : k \in 1..Len(fam.calls)}
  \cup {"C08_" \o fam.rels[k].type : k \in {j \in 1..Len(fam.rels) : ~RelHolds(fam, fam.rels[j])}}

Failed(r) == IF r.kind = "call" THEN CallFailed(r.call) ELSE FamFailed(r)

Init == i = 0 /\ bad = <<>>
Step == /\ i < Len(Recs) /\ i' = i + 1
        /\ bad' = bad \o SetToSeq({[id |-> Recs[i'].id, clause |-> c] : c \in Failed(Recs[i'])})
Fin  == /\ i = Len(Recs)
        /\ ndJsonSerialize(IOEnv.JUDGE_OUT, bad)
        /\ PrintT(<<"JUDGED", i, Len(bad)>>)
        /\ i' = i + 1 /\ bad' = bad
Next == Step \/ Fin
Spec == Init /\ [][Next]_<<i, bad>>
=============================================================================
