------------------------------ MODULE Limiters ------------------------------
(***************************************************************************)
(* The four slope limiters of flowdyn.xnum in exact rational arithmetic     *)
(* (the regularisation constants 1e-20 / 1e-40 of the smooth limiters are   *)
(* parameters; 0 in the exact model) and the clauses of C12 that define     *)
(* the second-order TVD region, stated on (a, b, phi) only.                 *)
(***************************************************************************)
EXTENDS Rat

Minmod(a, b) == IF RSign(a) * RSign(b) <= 0 THEN Zero
                ELSE IF RSign(a) > 0 THEN RMin(a, b) ELSE RMax(a, b)
Superbee(a, b) == IF RSign(a) * RSign(b) <= 0 THEN Zero
                  ELSE IF RSign(a) > 0 THEN RMin(RMul(R(2), RMin(a, b)), RMax(a, b))
                       ELSE RMax(RMul(R(2), RMax(a, b)), RMin(a, b))
VanAlbada(a, b) == IF RSign(a) * RSign(b) <= 0 THEN Zero
                   ELSE RDiv(RMul(RMul(a, b), RAdd(a, b)), RAdd(RSq(a), RSq(b)))
VanLeer(a, b) == IF RSign(a) * RSign(b) <= 0 THEN Zero
                 ELSE RMul(R(RSign(a)), RDiv(RMul(R(2), RMul(a, b)), RAbs(RAdd(a, b))))

Lim(name, a, b) == CASE name = "minmod" -> Minmod(a, b)
                     [] name = "superbee" -> Superbee(a, b)
                     [] name = "vanalbada" -> VanAlbada(a, b)
                     [] name = "vanleer" -> VanLeer(a, b)
LimiterNames == {"minmod", "superbee", "vanalbada", "vanleer"}

(* ---- the region clauses on exact values *)
ZeroAtExtrema(a, b, phi) == (RSign(a) * RSign(b) <= 0) => phi = Zero
CommonSign(a, b, phi) == (RSign(a) * RSign(b) > 0) => (phi = Zero \/ RSign(phi) = RSign(a))
TwiceSmaller(a, b, phi) == RLe(RAbs(phi), RMul(R(2), RMin(RAbs(a), RAbs(b))))
AtMostLarger(a, b, phi) == RLe(RAbs(phi), RMax(RAbs(a), RAbs(b)))
InRegion(a, b, phi) == ZeroAtExtrema(a, b, phi) /\ CommonSign(a, b, phi) /\ TwiceSmaller(a, b, phi) /\ AtMostLarger(a, b, phi)

(* ---- the same region logic on comparison TOKENS measured on floats (exact float comparisons):
        sa, sb, sp   signs of a, b, phi;   fin  phi finite
        c2, cm       0: |phi| <= bound,  1: above by at most 2 ulp,  2: above   (bounds 2 min(|a|,|b|), max(|a|,|b|)) *)
TokZero(t)   == (t.sa * t.sb <= 0) => t.sp = 0
TokSign(t)   == (t.sa * t.sb > 0) => (t.sp = 0 \/ t.sp = t.sa)
TokTwice(t)  == t.c2 <= 1
TokLarger(t) == t.cm <= 1
=============================================================================
