------------------------------ MODULE Contract ------------------------------
(***************************************************************************)
(* SolveContract: what ANY correct solve/restart must return (C07), stated  *)
(* on an observation record `o` and nothing else.  The same operators are   *)
(* evaluated by TLC                                                         *)
(*   - on the outcomes of the Driver specification (MC_Driver: every small  *)
(*     scenario, exhaustively), and                                         *)
(*   - on the outcomes of the real flowdyn code (Judge_Driver: the harness  *)
(*     projects what the code did onto the same record).                    *)
(*                                                                         *)
(* Times are integers whose ORDER is the order of the real times (lattice   *)
(* times in the model; exact ranks of the observed floats for the code);    *)
(* o.near lists pairs of distinct times closer than 4 ulp: a comparison     *)
(* between such a pair may go either way (the property cannot mean to       *)
(* decide half-ulp ties).                                                   *)
(*                                                                         *)
(*  o.t0, o.tsave, o.tot, o.maxit   the call (tot/maxit = -1 when absent)   *)
(*  o.nit, o.tfin                   iterations done, time of the final Qn   *)
(*  o.traj  <<[t, tend]>>           the states shown to calc_timestep and   *)
(*                                  t + dt (exact sum) for n = 1..nit       *)
(*  o.res   <<[t, srcs, fin, isfinal]>>  returned fields: time, the set of  *)
(*          trajectory points n in 1..nit+1 from which the IDEAL forward    *)
(*          step of length t - t_n reproduces the data, finite?, is it the  *)
(*          final Qn itself?                                                *)
(*  o.trajfin  all trajectory states finite;  o.caller  caller's field      *)
(*          untouched;  o.negsteps  number of steps taken with dt < 0       *)
(***************************************************************************)
EXTENDS Integers, Sequences, FiniteSets

None == -1

Nr(o, a, b)     == a = b \/ <<a, b>> \in o.near \/ <<b, a>> \in o.near
SureGe(o, a, b) == a = b \/ (a > b /\ ~Nr(o, a, b))
MayGe(o, a, b)  == a >= b \/ Nr(o, a, b)
SureLe(o, a, b) == SureGe(o, b, a)
MayLe(o, a, b)  == MayGe(o, b, a)

EffTot(o) == IF o.tot # None THEN o.tot
             ELSE IF Len(o.tsave) > 0 THEN o.tsave[Len(o.tsave)] ELSE None

(* time of trajectory point n, n in 1..nit+1 *)
PT(o, n) == IF n <= Len(o.traj) THEN o.traj[n].t ELSE o.tfin

SureStop(o, n) == (EffTot(o) # None /\ SureGe(o, PT(o, n + 1), EffTot(o))) \/ (o.maxit # None /\ n >= o.maxit)
MayStop(o, n)  == (EffTot(o) # None /\ MayGe(o, PT(o, n + 1), EffTot(o)))  \/ (o.maxit # None /\ n >= o.maxit)

(* the clauses are TOTAL: a record whose iteration count disagrees with the number of states presented to calc_timestep
   (C07_nit fails on it) is still judged on the points it has *)
NT(o) == IF o.nit <= Len(o.traj) THEN o.nit ELSE Len(o.traj)

NTL(o) == IF Len(o.res) <= Len(o.tsave) THEN Len(o.res) ELSE Len(o.tsave)

(* ---- C07 (i): each full step advances the time by dt (by its minimum for an array) *)
C07_advance(o) == \A n \in 1..NT(o) : Nr(o, PT(o, n + 1), o.traj[n].tend)

(* ---- C07 (ii): the run stops at the first step that satisfies a stop criterion; nit counts full steps *)
C07_nit(o) == /\ o.nit = Len(o.traj)
              /\ MayStop(o, o.nit)
              /\ \A n \in 0..(o.nit - 1) : ~SureStop(o, n)

(* ---- C07 (iii): one snapshot per requested time in [t0, min(tottime, tfin)], in order, once each *)
Required(o, s) == SureGe(o, s, o.t0) /\ SureLe(o, s, o.tfin) /\ SureLe(o, s, EffTot(o))
Allowed(o, s)  == MayGe(o, s, o.t0) /\ MayLe(o, s, o.tfin)

IsFallback(o) == Len(o.res) = 1 /\ o.res[1].isfinal /\ Nr(o, o.res[1].t, o.tfin)
                 /\ ~\E k \in 1..Len(o.tsave) : Required(o, o.tsave[k])

(* index of the request a result answers: requests are increasing, so the match is unique up to near ties *)
Answers(o, i, k) == Nr(o, o.res[i].t, o.tsave[k])

C07_times(o) ==
  \/ IsFallback(o)
  \/ \E m \in [1..Len(o.res) -> 1..Len(o.tsave)] :
        /\ \A i \in 1..Len(o.res) : Answers(o, i, m[i]) /\ Allowed(o, o.tsave[m[i]])
        /\ \A i \in 1..(Len(o.res) - 1) : m[i] < m[i + 1]
        /\ \A k \in 1..Len(o.tsave) : Required(o, o.tsave[k]) => \E i \in 1..Len(o.res) : m[i] = k

(* ---- C07 (iv): every snapshot lies on the trajectory, reached by a forward step within one CFL step *)
OnTraj(o, r) ==
  \E n \in r.srcs :
     /\ n \in 1..(o.nit + 1)
     /\ MayGe(o, r.t, PT(o, n))
     /\ IF n <= NT(o) THEN MayLe(o, r.t, o.traj[n].tend) ELSE Nr(o, r.t, o.tfin)

C07_ontraj(o) == IsFallback(o) \/ \A i \in 1..Len(o.res) : OnTraj(o, o.res[i])
C07_finite(o) == o.trajfin => \A i \in 1..Len(o.res) : o.res[i].fin
C07_forward(o) == o.negsteps = 0
C07_caller(o) == o.caller

SolveContract(o) == /\ C07_advance(o) /\ C07_nit(o) /\ C07_times(o) /\ C07_ontraj(o)
                    /\ C07_finite(o) /\ C07_forward(o) /\ C07_caller(o)

(* names of the clauses that fail on o (for total verdicts) *)
FailedC07(o) == {c \in {"C07_advance", "C07_nit", "C07_times", "C07_ontraj", "C07_finite", "C07_forward", "C07_caller"} :
                   ~ CASE c = "C07_advance" -> C07_advance(o)
                       [] c = "C07_nit"     -> C07_nit(o)
                       [] c = "C07_times"   -> C07_times(o)
                       [] c = "C07_ontraj"  -> C07_ontraj(o)
                       [] c = "C07_finite"  -> C07_finite(o)
                       [] c = "C07_forward" -> C07_forward(o)
                       [] c = "C07_caller"  -> C07_caller(o)}

-----------------------------------------------------------------------------
(* solve_legacy (outside the listed properties; clause names L_xxx): one result per save time, in order; a save time not   *)
(* earlier than the current time is reached exactly and the result IS the trajectory point after that pass; an earlier    *)
(* one returns the current state unmoved; every pass is a forward step of at most one CFL step; nit counts the passes      *)
L_count(o)   == Len(o.res) = Len(o.tsave)
L_times(o)   == \A k \in 1..NTL(o) :
                   LET before == IF k = 1 THEN o.t0 ELSE o.res[k - 1].t
                   IN IF MayGe(o, o.tsave[k], before) THEN Nr(o, o.res[k].t, o.tsave[k]) ELSE Nr(o, o.res[k].t, before)
L_ontraj(o)  == \A k \in 1..Len(o.res) : \E n \in 2..(Len(o.traj) + 1) : n \in o.res[k].srcs /\ Nr(o, o.res[k].t, PT(o, n))
L_forward(o) == o.negsteps = 0 /\ \A n \in 1..Len(o.traj) : MayGe(o, PT(o, n + 1), PT(o, n)) /\ MayLe(o, PT(o, n + 1), o.traj[n].tend)
L_nit(o)     == o.nit = Len(o.traj)
FailedLegacy(o) == {c \in {"L_count", "L_times", "L_ontraj", "L_forward", "L_nit", "L_caller"} :
                      ~ CASE c = "L_count" -> L_count(o) [] c = "L_times" -> L_times(o) [] c = "L_ontraj" -> L_ontraj(o)
                          [] c = "L_forward" -> L_forward(o) [] c = "L_nit" -> L_nit(o) [] c = "L_caller" -> o.caller}

-----------------------------------------------------------------------------
(* C08 (iv) monitors: entries exactly at the iterations n = 0..nit with      *)
(* (itstart + n) % f = 0, in order, each with that iteration's totnit, time  *)
(* and the value of that iteration's state (src = trajectory point n + 1)    *)
MonExpected(o, f) == LET S == {n \in 0..o.nit : (o.itstart + n) % f = 0} IN S

RECURSIVE SortedSeq(_)
SortedSeq(S) == IF S = {} THEN <<>> ELSE LET x == CHOOSE y \in S : \A z \in S : y <= z
                                         IN <<x>> \o SortedSeq(S \ {x})

SelectF(sq, f) == SelectSeq(sq, LAMBDA e : e.f = f)

C08_monitors(o) ==
  \A f \in o.freqs :
     LET got == SelectF(o.mon, f)
         exp == SortedSeq(MonExpected(o, f))
     IN /\ Len(got) = Len(exp)
        /\ \A i \in 1..Len(got) :
              /\ got[i].it = o.itstart + exp[i]
              /\ got[i].t = PT(o, exp[i] + 1)
              /\ got[i].src = exp[i] + 1

(* C08 (iii) iteration bookkeeping: the counters are cumulative *)
C08_counters(o) == /\ o.totnit = o.itstart + o.nit
                   /\ o.itstart = (IF o.op = "solve" THEN 0 ELSE IF o.it0 > 0 THEN o.it0 ELSE 0)
                   \* the final state returned when no save time was requested carries the cumulative count
                   \* (a snapshot that happens to coincide with the final state is stamped like a snapshot)
                   /\ (o.tsave = <<>> /\ o.nit > 0 /\ Len(o.res) = 1) => o.res[1].it = o.totnit
=============================================================================
