--------------------------- MODULE Judge_Limiters ---------------------------
(* C12 judge: region logic evaluated by TLC on exact float-comparison tokens measured on the real xnum limiters *)
EXTENDS Limiters, Json, IOUtils, SequencesExt
Recs == ndJsonDeserialize(IOEnv.JUDGE_IN)
VARIABLES i, bad
Failed(t) ==
  IF t.kind = "raised" THEN {"C12_raised"} ELSE      \* the limiter raised on a pair of finite slopes
  {c \in {"C12_finite", "C12_zero_at_extrema", "C12_common_sign", "C12_twice_smaller", "C12_at_most_larger",
          "C12_symmetric", "C12_odd", "C12_elementwise", "C12_homogeneous", "C12_idempotent", "DRIFT_value"} :
     ~ CASE c = "C12_finite" -> t.fin = 1
         [] c = "C12_zero_at_extrema" -> t.fin = 1 => TokZero(t)
         [] c = "C12_common_sign" -> t.fin = 1 => TokSign(t)
         [] c = "C12_twice_smaller" -> t.fin = 1 => TokTwice(t)
         [] c = "C12_at_most_larger" -> t.fin = 1 => TokLarger(t)
         [] c = "C12_symmetric" -> t.sym = 1
         [] c = "C12_odd" -> t.odd = 1
         [] c = "C12_elementwise" -> t.vec = 1
         [] c = "C12_homogeneous" -> t.large = 1 => t.hom = 1        \* only stated for |a|,|b| >= 1e-8
         [] c = "C12_idempotent" -> t.large = 1 => t.idem = 1
         [] c = "DRIFT_value" ->      \* exact value against the transcription, where floats are exact (minmod/superbee on the grid)
              (t.exact = 1) => Lim(t.lim, FromPair(t.a), FromPair(t.b)) = FromPair(t.phi)}
Init == i = 0 /\ bad = <<>>
Step == /\ i < Len(Recs) /\ i' = i + 1
        /\ bad' = bad \o SetToSeq({[id |-> Recs[i'].id, clause |-> c] : c \in Failed(Recs[i'])})
Fin  == /\ i = Len(Recs) /\ ndJsonSerialize(IOEnv.JUDGE_OUT, bad) /\ PrintT(<<"JUDGED", i, Len(bad)>>)
        /\ i' = i + 1 /\ bad' = bad
Next == Step \/ Fin
Spec == Init /\ [][Next]_<<i, bad>>
=============================================================================
