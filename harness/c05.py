"""C05 explicit Runge-Kutta order conditions: the real step() of every explicit integrator class is executed on
formal symbols (free algebra); the realised Butcher tableau is judged exactly by TLC (RK.tla / Judge_RK.tla);
the stage machines of the code are model checked in RKStep.tla (MC_RK)."""
import inspect, os, sys
from fractions import Fraction
import numpy as np
from . import core
from .core import Report
from .freealg import Lin, Poly, objarray

sys.path.insert(0, core.REPO)
import flowdyn.integration as tnum   # noqa: E402
import flowdyn.field as field        # noqa: E402


class M1:
    neq = 1
    shape = [1]
    islinear = 0
    source = None


class Msh:
    def __init__(self, n):
        self.ncell = n


class SymDisc:
    """recording RHS over the free algebra: every call returns fresh symbols and logs (time, presented state).
    reuse=True: the RHS writes its values into the SAME output list / array objects at every call (a preallocated
    work buffer, as an optimised space operator would) -- the same mathematical function, a different aliasing behaviour"""

    def __init__(self, ncell, reuse=False):
        self.nelem = ncell
        self.calls = []
        self.reuse = reuse
        self._out = [objarray([Lin() for _ in range(ncell)])]

    def rhs(self, f):
        j = len(self.calls) + 1
        self.calls.append((f.time, [x for x in f.data[0]]))
        vals = [Lin.sym("k%d_%d" % (j, c)) for c in range(self.nelem)]
        if self.reuse:
            for c in range(self.nelem):
                self._out[0][c] = vals[c]
            return self._out
        return [objarray(vals)]


class PolyDisc:
    def __init__(self):
        self.nelem = 1
        self.z = Poly([0, 1])

    def rhs(self, f):
        return [objarray([self.z * f.data[0][0]])]


def explicit_classes():
    out = []
    for name, cls in inspect.getmembers(tnum, inspect.isclass):
        if cls.__module__ != tnum.__name__ or not issubclass(cls, tnum.timemodel):
            continue
        if issubclass(cls, tnum.implicitmodel) or cls in (tnum.timemodel,):
            continue
        try:
            cls(None, None)
        except Exception:
            continue            # abstract bases (no tableau)
        out.append(name)
    return out


def rationalise(x, bound=1000):
    """(Fraction, exact?) : a float-born coefficient and whether it is a small rational to within 8 ulp"""
    r = Fraction(x).limit_denominator(bound)
    if abs(Fraction(x) - r) <= 8 * Fraction(1, 2 ** 52) * max(1, abs(r)):
        return r, True
    return Fraction(x).limit_denominator(10 ** 4), False


def realise(clsname, dts, t0, reuse=False):
    """run the real step on formal symbols; dts: list of per-cell dt (len 1 => scalar dt)"""
    cls = getattr(tnum, clsname)
    nc = len(dts)
    disc = SymDisc(nc, reuse=reuse)
    solver = cls(Msh(nc), disc)
    f = field.fdata(M1(), Msh(nc), [objarray([Lin.sym("y%d" % c) for c in range(nc)])], t=t0)
    dt = float(dts[0]) if nc == 1 else np.array(dts, dtype=float)
    solver.step(f, dt)
    s = len(disc.calls)
    mindt = Fraction(min(dts))
    recs = []
    for c in range(nc):
        dtc = Fraction(dts[c])
        exact = True
        affine = True
        A, cp = [], []
        for (tm, state) in disc.calls:
            st = state[c]
            row = []
            for j in range(1, s + 1):
                v, ex = rationalise(st.coef("k%d_%d" % (j, c)) / dtc)
                exact = exact and ex
                row.append(v)
            # coefficient of y must be 1 and nothing else may appear (other cells, later stages)
            known = {"y%d" % c} | {"k%d_%d" % (j, c) for j in range(1, s + 1)}
            affine = affine and st.coef("y%d" % c) == 1 and set(st.t) <= known
            A.append(row)
            v, ex = rationalise((Fraction(tm) - Fraction(t0)) / mindt)
            cp.append(v)
        fin = f.data[0][c]
        b = []
        for j in range(1, s + 1):
            v, ex = rationalise(fin.coef("k%d_%d" % (j, c)) / dtc)
            exact = exact and ex
            b.append(v)
        affine = affine and fin.coef("y%d" % c) == 1 and set(fin.t) <= {"y%d" % c} | {"k%d_%d" % (j, c) for j in range(1, s + 1)}
        tend, _ = rationalise((Fraction(f.time) - Fraction(t0)) / mindt)
        recs.append(dict(cls=clsname, A=[[core.rat(x) for x in r] for r in A], b=[core.rat(x) for x in b],
                         cpres=[core.rat(x) for x in cp], tend=core.rat(tend), affine=bool(affine), exact=bool(exact),
                         poly=[], dts=[str(Fraction(d)) for d in dts], cell=c, reuse=bool(reuse)))
    return recs


class NumDisc:
    """numeric twin of SymDisc: every call returns a fresh pseudo-random vector and logs (time, presented state)"""

    def __init__(self, n, reuse=False, seed=12345, cplx=False):
        self.nelem = n
        self.calls = []
        self.ks = []
        self.reuse = reuse
        self.cplx = cplx
        self.rng = np.random.RandomState(seed)
        self._out = [np.zeros(n, dtype=complex if cplx else float)]

    def rhs(self, f):
        self.calls.append((float(f.time), np.array(f.data[0], dtype=complex if self.cplx else float, copy=True)))
        k = self.rng.uniform(-1.0, 1.0, self.nelem)
        if self.cplx:
            k = k + 1j * self.rng.uniform(-1.0, 1.0, self.nelem)
        self.ks.append(k.copy())
        if self.reuse:
            self._out[0][:] = k
            return self._out
        return [k]


def realise_numeric(clsname, dts, t0, reuse=False, M=16, cplx=False):
    """the tableau realised by the real step, recovered NUMERICALLY (least squares on pseudo-random RHS vectors): used when the
    symbolic execution is not possible (the code looked at its numbers -- a NaN test, a dtype conversion -- which is its right).
    Each dt cell is replicated M times; an explicit one-step method is affine in (y, k_1..k_s), so the presented states and the
    result determine A and b to round-off"""
    cls = getattr(tnum, clsname)
    nc = len(dts)
    N = nc * M
    disc = NumDisc(N, reuse=reuse, cplx=cplx)
    solver = cls(Msh(N), disc)
    rng = np.random.RandomState(4321)
    y = rng.uniform(-1.0, 1.0, N)
    if cplx:
        y = y + 1j * rng.uniform(-1.0, 1.0, N)
    f = field.fdata(M1(), Msh(N), [y.copy()], t=t0)
    dtrep = np.repeat(np.array(dts, dtype=float), M)
    dt = float(dts[0]) if nc == 1 else dtrep
    solver.step(f, dt)
    s = len(disc.calls)
    mindt = Fraction(min(dts))
    U = Fraction(1, 2 ** 52)

    def rat(x):
        r = Fraction(float(x)).limit_denominator(1000)
        if abs(Fraction(float(x)) - r) <= 4096 * U * max(1, abs(r)):
            return r, True
        return Fraction(float(x)).limit_denominator(10 ** 4), False
    recs = []
    for c in range(nc):
        sl = slice(c * M, (c + 1) * M)
        dtc = float(dts[c])
        exact, affine = True, True
        A, cp = [], []

        def fit(target, nk):
            basis = np.stack([y[sl]] + [disc.ks[l][sl] for l in range(nk)], axis=1)
            coef, *_ = np.linalg.lstsq(basis, target[sl], rcond=None)
            res = float(np.max(np.abs(basis @ coef - target[sl])))
            if cplx:            # the coefficients of a Runge-Kutta step are real whatever the field
                res = max(res, float(np.max(np.abs(np.imag(coef)))))
                coef = np.real(coef)
            return coef, res
        for j, (tm, P) in enumerate(disc.calls):
            coef, res = fit(P, j)
            affine = affine and res < 1e-11 and abs(coef[0] - 1.0) < 1e-11
            row = []
            for l in range(s):
                v, ex = rat(coef[1 + l] / dtc) if l < j else (Fraction(0), True)
                exact = exact and ex
                row.append(v)
            A.append(row)
            v, ex = rat((Fraction(tm) - Fraction(t0)) / mindt)
            cp.append(v)
        coef, res = fit(np.array(f.data[0], dtype=complex if cplx else float), s)
        affine = affine and res < 1e-11 and abs(coef[0] - 1.0) < 1e-11
        b = []
        for l in range(s):
            v, ex = rat(coef[1 + l] / dtc)
            exact = exact and ex
            b.append(v)
        tend, _ = rat((Fraction(float(f.time)) - Fraction(t0)) / mindt)
        if not affine:          # not a Runge-Kutta step of (y, k_1..k_s): the fitted numbers mean nothing (and overflow the judge)
            A, b, exact = [[Fraction(0)] * s for _ in range(s)], [Fraction(0)] * s, False
        recs.append(dict(cls=clsname, A=[[core.rat(x) for x in r] for r in A], b=[core.rat(x) for x in b],
                         cpres=[core.rat(x) for x in cp], tend=core.rat(tend), affine=bool(affine), exact=bool(exact),
                         poly=[], dts=[str(Fraction(d)) for d in dts], cell=c, reuse=bool(reuse), numeric=True, complex=bool(cplx)))
    return recs


def stability_poly_numeric(clsname):
    """coefficients of the stability polynomial fitted on complex samples of the real step applied to y' = z y"""
    cls = getattr(tnum, clsname)
    zs = 0.5 * np.exp(2j * np.pi * np.arange(16) / 16)

    class ZD:
        nelem = 16

        def rhs(self, f):
            return [zs * f.data[0]]
    solver = cls(Msh(16), ZD())
    f = field.fdata(M1(), Msh(16), [np.ones(16, dtype=complex)], t=0.0)
    solver.step(f, 1.0)
    g = np.asarray(f.data[0])
    deg = 8
    V = np.stack([zs ** k for k in range(deg + 1)], axis=1)
    coef, *_ = np.linalg.lstsq(V, g, rcond=None)
    limbs = []
    for x in np.real(coef[1:]):
        if abs(x) < 1e-13:
            x = 0.0
        v = int(round(float(x) * 10 ** 12))
        limbs.append([v // 10 ** 6, v % 10 ** 6])
    while limbs and limbs[-1] == [0, 0]:
        limbs.pop()
    return limbs


def propagator_points(clsname):
    """timemodel.propagator(z) of the real class at dyadic real z, identified with rationals (den <= 10^5)"""
    out = []
    solver = getattr(tnum, clsname)(None, None)
    for z in (0.5, -0.5, -1.0, 0.25, -2.0):
        try:
            v = solver.propagator(z)
            v = float(np.real(np.ravel(np.asarray(v))[0]))
        except Exception:
            return []
        q = Fraction(v).limit_denominator(10 ** 5)
        if abs(Fraction(v) - q) > 16 * Fraction(1, 2 ** 52) * max(1, abs(q)) or not core.fits(q):
            return []
        out.append([core.rat(Fraction(z)), core.rat(q)])
    return out


def stability_poly(clsname):
    cls = getattr(tnum, clsname)
    disc = PolyDisc()
    solver = cls(Msh(1), disc)
    f = field.fdata(M1(), Msh(1), [objarray([Poly([1])])], t=0.0)
    solver.step(f, 1.0)
    g = f.data[0][0].c[1:]
    limbs = []
    for x in g:
        v = int(round(x * 10 ** 12))
        limbs.append([v // 10 ** 6, v % 10 ** 6])
    return limbs


def run(tier):
    rep = Report("C05", tier)
    rep.rule = ("one evaluation = the real step() of one explicit integrator class executed on formal symbols for one dt "
                "configuration (scalar / per-cell array, several values and start times); distinct = (class, dt configuration)")
    rep.assumptions = ["the code never inspects RHS values, so the symbolic execution covers every right-hand side (checked: "
                       "the run would raise if it did)",
                       "coefficients born as floats are identified with the rational p/q, q<=1000, within 8 ulp",
                       "order conditions up to 4 imply the order for every smooth RHS (standard theorem)"]
    res = core.tlc("MC_RK", "MC_RK.cfg", workers=2, coverage=(tier == "thorough"), timeout=600)
    core.tlc_must_pass(res, "MC_RK")
    rep.add_tlc("MC_RK", res)
    names = explicit_classes()
    rep.extra["classes"] = names
    recs = []
    rid = 0
    cfgs = [([1.0], 0.0), ([0.5], 0.25), ([0.375], 2.0), ([1.0, 2.0], 0.0), ([0.5, 0.25, 4.0], 1.0)]
    if tier == "thorough":
        cfgs += [([2.0 ** -k], float(k)) for k in range(2, 8)] + [([3.0, 1.5], 0.5), ([0.125, 8.0, 1.0, 0.75], 0.0)]
    known = {"explicit", "forwardeuler", "rk2", "rk2_heun", "rk3_heun", "rk3ssp", "rk4", "lsrk25bb", "lsrk26bb", "lsrk4"}
    for cn in names:
        if cn not in known:
            rep.extra.setdefault("classes_without_nominal_order", []).append(cn)
            continue
        prop_pts = propagator_points(cn)
        try:
            poly = stability_poly(cn)
        except Exception as ex:
            try:
                poly = stability_poly_numeric(cn)
                rep.extra.setdefault("numeric_fallbacks", []).append("%s: stability polynomial (%s)" % (cn, str(ex)[:60]))
            except Exception as ex2:
                poly = []
                rep.extra.setdefault("poly_failures", []).append("%s: %s" % (cn, ex2))
        for dts, t0, reuse in [(d, t, False) for (d, t) in cfgs] + [(d, t, True) for (d, t) in cfgs[:4]]:
            try:
                rs = realise(cn, dts, t0, reuse=reuse)
            except Exception as ex0:    # the code inspected a value (its right): recover the tableau numerically instead
                try:
                    rs = realise_numeric(cn, dts, t0, reuse=reuse)
                    rep.extra.setdefault("numeric_fallbacks", []).append("%s dts=%s: %s" % (cn, dts, str(ex0)[:60]))
                except Exception as ex:
                    rs, why_raised = None, "%s: %s" % (type(ex).__name__, str(ex)[:100])
            if rs is None:              # the real step raised on plain numbers too: an observation, judged as not-an-RK-step
                rs = [dict(cls=cn, A=[[[0, 1]]], b=[[0, 1]], cpres=[[0, 1]], tend=[0, 1], affine=False, exact=False,
                           poly=[], prop=[], dts=[str(d) for d in dts], cell=0, raised=why_raised, reuse=bool(reuse))]
            for r in rs:
                rid += 1
                r["id"] = rid
                r["poly"] = poly if (len(dts) == 1 and dts[0] == 1.0) else []
                r["prop"] = prop_pts if (len(dts) == 1 and dts[0] == 1.0 and not reuse) else []
                recs.append(r)
                rep.evaluations += 1
                rep.nontrivial.add((cn, tuple(dts), t0, reuse))
        # fields of complex dtype (the library's own propagator / cflmax step such fields): the same real tableau, recovered
        # numerically from complex pseudo-random data
        for (dts, t0) in cfgs[:2] + cfgs[3:4]:
            try:
                rs = realise_numeric(cn, dts, t0, cplx=True)
            except Exception as ex:
                rs = [dict(cls=cn, A=[[[0, 1]]], b=[[0, 1]], cpres=[[0, 1]], tend=[0, 1], affine=False, exact=False, poly=[], prop=[],
                           dts=[str(d) for d in dts], cell=0, raised="%s: %s" % (type(ex).__name__, str(ex)[:100]), reuse=False, complex=True)]
            for r in rs:
                rid += 1
                r["id"] = rid
                r["poly"], r["prop"] = [], []
                recs.append(r)
                rep.evaluations += 1
                rep.nontrivial.add((cn, tuple(dts), t0, "complex"))
        rep.sample({"class": cn, "realised": [r for r in recs if r["cls"] == cn][0]}, limit=10)
    wd = core.scratch("c05")
    judged, jr = core.judge("Judge_RK", recs, wd, timeout=1200, unjudgeable="C05_unjudgeable")
    rep.add_tlc("Judge_RK", jr, counts_as_model=False)
    rep.traces += len(recs)
    byid = {r["id"]: r for r in recs}
    for b in judged:
        r = byid[b["id"]]
        if b["clause"] == "DRIFT_propagator":
            rep.drift.append("class %s: propagator(z) is not the stability polynomial of the tableau its step realises" % r["cls"])
            continue
        if b["clause"].startswith("DRIFT"):
            rep.drift.append("class %s realises a tableau different from the transcription in RK.tla (dts=%s)" % (r["cls"], r["dts"]))
            continue
        rep.violation(b["clause"], {"cls": r["cls"], "rhs_reuses_buffers": r.get("reuse", False), "complex_field": r.get("complex", False)}, r)
    return rep.finish()


if __name__ == "__main__":
    sys.exit(run(os.environ.get("VERIF_TIER", "quick")))
