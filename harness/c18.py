"""C18 time step: eigen-relations of the physical flux Jacobian model checked exactly (Fluxes.tla: Eigen); the real calc_timestep
judged against CFL * h / spectral radius (exact rationals on exact points, ulps tokens on random states, bitwise linearity and
locality); the use of the step by the driver (global minimum / dtlocal) is judged with the C07 machinery (C18_cells)."""
import math, os, random, sys
from fractions import Fraction
import numpy as np
from . import core, fd
from .fvm_check import run_check

F = Fraction


def base(**kw):
    r = dict(kind="dt", defulps=0, positive=1, linear=0, local=0, exact=0, cells=0, dt=[1, 1], cfl=[1, 1], h=[1, 1], u=[0, 1], c=[1, 1], model="")
    r.update(kw)
    return r


def one_model(rnd, kind, exact):
    n = rnd.choice([1, 2, 5])
    if kind == "euler2d":
        nx, ny = rnd.choice([(1, 1), (2, 3), (4, 2)])
        lx, ly = rnd.choice([(1.0, 1.0), (2.0, 0.5), (0.3, 0.7)]) if not exact else rnd.choice([(1.0, 1.0), (2.0, 0.5)])
        m = fd.mesh2d.mesh2d(nx, ny, lx, ly)
        n = nx * ny
        dx, dy = F(lx) / nx, F(ly) / ny
        hs = [dx * dy / (dx + dy)] * n
    else:
        if exact:
            m = fd.uniform(n, length=n * rnd.choice([0.5, 1.0, 0.25]))
        else:
            w = np.array([10.0 ** rnd.uniform(-2, 1) for _ in range(n)])
            m = fd.mesh_from_faces(np.concatenate([[0.0], np.cumsum(w)]))
        hs = [F(float(m.xf[i + 1])) - F(float(m.xf[i])) for i in range(n)]
    cfl = rnd.choice([0.5, 0.25, 1.0, 2.0]) if exact else rnd.choice([0.5, 0.8, 1e-3, 37.0])
    if kind == "convection":
        a = rnd.choice([1.0, -2.0, 0.25]) if exact else rnd.uniform(-3, 3)
        model = fd.conv.model(a)
        prim = [np.array([rnd.uniform(-1, 1) for _ in range(n)])]
        lam = [abs(F(a))] * n
        lamf = [abs(a)] * n
        ex = [(F(0), abs(F(a)))] * n           # (u, c) with |u| + c = |a|
    elif kind == "burgers":
        u = np.array([rnd.choice([-2.0, 0.5, 1.0, 4.0]) for _ in range(n)]) if exact else np.array([rnd.uniform(0.1, 3) * rnd.choice([1, -1]) for _ in range(n)])
        model = fd.burgers.model()
        prim = [u]
        lamf = [abs(float(x)) for x in u]
        ex = [(F(float(x)), F(0)) for x in u]
    elif kind == "shallowwater":
        g = rnd.choice([1.0, 4.0]) if exact else rnd.choice([9.81, 1.0, 3.3])
        model = fd.sw.shallowwater1d(g=g)
        if exact:
            c = np.array([rnd.choice([0.5, 1.0, 2.0]) for _ in range(n)])
            h = c * c / g
        else:
            h = np.array([10.0 ** rnd.uniform(-3, 3) for _ in range(n)])
            c = np.sqrt(g * h)
        u = np.array([rnd.choice([-2.0, 0.0, 0.5, 3.0]) for _ in range(n)]) if exact else np.array([rnd.uniform(-3, 3) for _ in range(n)]) * c
        prim = [h, u]
        lamf = [abs(float(a_)) + float(b_) for a_, b_ in zip(u, c)]
        ex = [(F(float(a_)), F(float(b_))) for a_, b_ in zip(u, c)]
    else:
        gam = rnd.choice([1.4, 5.0 / 3.0, 2.0]) if not exact else 2.0
        if exact:     # gamma = 2, p = rho c^2 / 2: exact in floats for dyadic rho, c
            rho = np.array([rnd.choice([0.5, 1.0, 4.0]) for _ in range(n)])
            c = np.array([rnd.choice([0.5, 1.0, 2.0]) for _ in range(n)])
            p = rho * c * c / gam
        else:
            rho = np.array([10.0 ** rnd.uniform(-4, 4) for _ in range(n)])
            p = np.array([10.0 ** rnd.uniform(-4, 4) for _ in range(n)])
            c = np.sqrt(gam * p / rho)
        if kind == "euler2d":
            model = fd.euler.euler2d(gamma=gam)
            if exact:    # velocities on 3-4-5 triangles: the magnitude is dyadic
                k = np.array([rnd.choice([0.0, 0.25, 1.0]) for _ in range(n)])
                ux, uy = 3.0 * k * rnd.choice([1, -1]), 4.0 * k
                vm = 5.0 * k
            else:
                ux = np.array([rnd.uniform(-3, 3) for _ in range(n)]) * c
                uy = np.array([rnd.uniform(-3, 3) for _ in range(n)]) * c
                vm = np.sqrt(ux * ux + uy * uy)
            prim = [rho, np.vstack([ux, uy]), p]
            lamf = [float(a_) + float(b_) for a_, b_ in zip(vm, c)]
            ex = [(F(float(a_)), F(float(b_))) for a_, b_ in zip(vm, c)]
        else:
            model = fd.euler.euler1d(gamma=gam) if kind == "euler1d" else fd.euler.nozzle(lambda x: 1.0 + 0.1 * x, gamma=gam)
            u = np.array([rnd.choice([-2.0, 0.0, 0.5, 3.0]) for _ in range(n)]) if exact else np.array([rnd.uniform(-3, 3) for _ in range(n)]) * c
            prim = [rho, u, p]
            lamf = [abs(float(a_)) + float(b_) for a_, b_ in zip(u, c)]
            ex = [(F(float(a_)), F(float(b_))) for a_, b_ in zip(u, c)]
    return model, m, prim, hs, cfl, lamf, ex, n


def records(rnd, tier):
    recs = []
    kinds = ["convection", "burgers", "shallowwater", "euler1d", "nozzle", "euler2d"]
    for c in range(90 if tier == "quick" else 1500):
        kind = kinds[c % len(kinds)]
        exact = (c // len(kinds)) % 2 == 0
        try:
            model, m, prim, hs, cfl, lamf, ex, n = one_model(rnd, kind, exact)
            if kind == "euler2d":
                disc = fd.modeldisc.fvm2dcart(model, m, fd.xnum.extrapol2d1(), bclist={t: {"type": "per"} for t in ("left", "right", "bottom", "top")})
            else:
                disc = fd.modeldisc.fvm(model, m, fd.recon("extrapol1"))
            f = fd.field.fdata(model, m, [np.array(p, dtype=float) for p in prim])
            f = fd.field.fdata(model, m, model.prim2cons(f.data))
            with np.errstate(all="ignore"):
                # history: the same operator was asked for another state and another CFL number just before
                try:
                    g_ = f.copy()
                    for d_ in g_.data:
                        d_ *= 1.7
                    disc.calc_timestep(g_, cfl * 0.37)
                except Exception:
                    pass
                dt = np.asarray(disc.calc_timestep(f, cfl), dtype=float) + np.zeros(n)
                dt2 = np.asarray(disc.calc_timestep(f, cfl * 4.0), dtype=float) + np.zeros(n)
            for i in range(n):
                want = F(cfl) * hs[i] / F(lamf[i]) if lamf[i] > 0 else None
                r = base(model=kind, cell=i, n=n)
                r["positive"] = 1 if dt[i] > 0 else 0
                if want is not None:
                    r["defulps"] = core.ulps(float(dt[i]), want, float(want)) if math.isfinite(dt[i]) else core.ULP_CAP
                r["linear"] = 0 if dt2[i] == 4.0 * dt[i] else 1
                if exact and lamf[i] > 0:
                    q = F(float(dt[i])).limit_denominator(100000)
                    if core.fits(q) and core.ulps(float(dt[i]), q, float(dt[i])) <= 64 and all(core.fits(v) for v in (hs[i],) + ex[i]):
                        r.update(exact=1, dt=core.rat(q), cfl=core.rat(F(cfl)), h=core.rat(hs[i]), u=core.rat(ex[i][0]), c=core.rat(ex[i][1]))
                recs.append(r)
            # locality: perturb one other cell, entry i stays bit-identical
            if n >= 2 and kind not in ("convection",):
                j = rnd.randrange(n)
                prim2 = [np.array(p, dtype=float).copy() for p in prim]
                for p in prim2:
                    if p.ndim == 1:
                        p[j] = p[j] * 1.37 + (0.1 if kind == "burgers" else 0.0)
                    else:
                        p[:, j] = p[:, j] * 1.37 + 0.1
                f2 = fd.field.fdata(model, m, prim2)
                f2 = fd.field.fdata(model, m, model.prim2cons(f2.data))
                with np.errstate(all="ignore"):
                    dtb = np.asarray(disc.calc_timestep(f2, cfl), dtype=float) + np.zeros(n)
                changed = sum(1 for i in range(n) if i != j and not (dtb[i] == dt[i]))
                recs.append(base(model=kind, local=changed, cell=-1, n=n))
            # bitwise linearity in the cell size (power-of-two mesh scaling), 1D
            if kind != "euler2d":
                m2 = fd.mesh_from_faces(np.asarray(m.xf) * 8.0)
                d2 = fd.modeldisc.fvm(model, m2, fd.recon("extrapol1"))
                f3 = fd.field.fdata(model, m2, [d.copy() for d in f.data])
                with np.errstate(all="ignore"):
                    dtc = np.asarray(d2.calc_timestep(f3, cfl), dtype=float) + np.zeros(n)
                recs.append(base(model=kind, linear=0 if bool(np.all(dtc == 8.0 * dt)) else 1, cell=-2, n=n))
        except Exception as ex_:
            recs.append(dict(kind="raised", what="%s: %s" % (type(ex_).__name__, str(ex_)[:100]), model=kind))
    return recs


def system_cells_records():
    """C18 (ii) for SYSTEMS and for the implicit integrators too: a two-equation fake system with rhs == 1 and per-cell steps
    dt_i that differ from cell to cell; after N iterations every unknown of cell i has advanced by N min(dt) (one global step)
    or by N dt_i (dtlocal directive) -- whichever equation it belongs to"""
    from . import driver_obs as D
    recs = []
    spread = np.array([2.0, 1.0, 4.0, 1.5])

    class Two(D.FakeModel):
        def __init__(self):
            D.FakeModel.__init__(self, 0)
            self.neq, self.shape = 2, [1, 1]

    class Disc2(D.RecDisc):
        def rhs(self, f):
            return [np.ones(self.nelem) for _ in f.data]
    for cn in ("explicit", "rk2_heun", "rk3ssp", "lsrk25bb", "implicit", "cranknicolson", "gear"):
        for dtlocal in (False, True):
            try:
                mesh, model = D.FakeMesh(4), Two()
                disc = Disc2(4, "c4", rec=False, dtlocal_spread=True, rhs_mode="one")
                disc.model, disc.mesh = model, mesh
                solver = getattr(fd.tnum, cn)(mesh, disc)
                f0 = fd.field.fdata(model, mesh, [np.array([1.0, 0.75, -0.5, 1.25]), np.array([0.25, -1.0, 2.0, 0.5])])
                nit, cfl = 3, 0.5
                res = solver.solve(f0, cfl, stop={"maxit": nit}, **({"directives": {"dtlocal": True}} if dtlocal else {}))[-1]
                want = nit * cfl * 0.25 * (spread if dtlocal else np.ones(4))
                bad = 0
                for q in range(2):
                    inc = np.asarray(res.data[q], dtype=float) - np.asarray(f0.data[q], dtype=float)
                    tol = 0.0 if cn in ("explicit", "rk2_heun") else 1e-9       # (the others add fractions of dt / solve a system)
                    bad += int(np.sum(np.abs(inc - want) > tol * np.abs(want)))
                recs.append(base(model="system2", cells=bad, cls=cn, dtlocal=dtlocal))
            except Exception as ex_:
                recs.append(dict(kind="raised", what="%s: %s" % (type(ex_).__name__, str(ex_)[:100]), model="system2"))
    return recs


def driver_records(tier):
    """C18 (ii): the driver advances every cell by min(dt) (global) or by its own dt (dtlocal): rhs == 1 makes the data
    increments equal to the step sizes; judged by Judge_Driver on the C07 observation record (clause C18_cells)"""
    from . import driver_obs as D
    recs = []
    rid = 0
    for cn in ("explicit", "rk2", "rk2_heun"):
        for dtlocal in (False, True):
            for prof in ("c4", "var", "c3"):
                for nc in (2, 4, 6):
                    S = D.Session(cn, ncell=nc, profile=prof, dtlocal_spread=True, rhs_mode="one")
                    # larger meshes: snapshots asked for strictly inside steps, and the directive that only prints -- neither
                    # changes the step the cells advance by
                    dirs = dict({"dtlocal": True} if dtlocal else {}, **({"verbose": True} if nc == 6 else {}))
                    ts = [] if nc == 2 else [1.0 / D.UNIT, 5.0 / D.UNIT]
                    import contextlib, io
                    with contextlib.redirect_stdout(io.StringIO()):
                        raw, _ = S.call("solve", S.f0, 0.5, ts, {"maxit": 4}, directives=dirs or None)
                    raw["rhs_mode"] = "one"
                    rid += 1
                    recs.append({"id": rid, "kind": "call", "call": D.project([raw], rid)[0], "cls": cn, "dtlocal": dtlocal})
    for (cn, dtlocal, islin, op, cfl, nmax, raw) in D.changing_cfl_calls():
        rid += 1
        recs.append({"id": rid, "kind": "call", "call": D.project([raw], rid)[0], "cls": cn, "dtlocal": dtlocal,
                     "op": op, "cfl": cfl, "islinear": islin})
    return recs


def sig_of(r):
    return {"kind": r["kind"], "model": r.get("model", r.get("cls", ""))}


def run(tier):
    rnd = random.Random(core.seed())
    recs = records(rnd, tier) + system_cells_records()
    drv = driver_records(tier)
    return run_check(
        "C18", tier,
        rule="model: eigen-relations A(W) r = lambda r of the physical flux Jacobian at every grid state (Euler, shallow water), spectral "
             "radius = |u|+c; code: calc_timestep of all six models on exact points (dt identified with a rational, TLC computes "
             "cfl*h/(|u|+c)) and on random states over 8 decades and non-uniform meshes (ulps), positivity, bitwise linearity in cfl and "
             "cell size, locality; the driver with non-uniform per-cell dt and rhs == 1 (global minimum vs dtlocal)",
        assumptions=["2D cell size h = dx dy / (dx + dy); Burgers cells with u = 0 have no finite step (excluded)",
                     "C18_cells is judged by Judge_Driver on the observation record of the C07 machinery"],
        mc_runs=[("MC_Fluxes", "MC_Fluxes.cfg" if tier == "quick" else "MC_Fluxes_f.cfg", 16)],
        groups=[("Judge_Model", recs), ("Judge_Driver", drv)], prefixes=["C18"], sig_of=sig_of,
        symbolic=("Apa_Speeds", ["InvEulerEigen", "InvSpectralRadius", "InvShallowWaterEigen"],
                  "model level, beyond the grid: Apa_Speeds.tla proves with Apalache/Z3 that u - c, u, u + c are eigenvalues of the "
                  "physical flux Jacobian (Euler, every rational gamma > 1; shallow water) for EVERY state, hence the spectral "
                  "radius |u| + c the time step divides by"))


if __name__ == "__main__":
    sys.exit(run(os.environ.get("VERIF_TIER", "quick")))
