SPECIFICATION Spec
CONSTANTS
  Sizes <- SizesFull
  DataVals2 = {0, 1, 2}
  Recons2 = {"e1", "k"}
  CheckKinds2 = {"shift"}
INVARIANT InvCons2
INVARIANT InvTranspose
INVARIANT InvMirrorX
INVARIANT InvShift2
INVARIANT InvRows
INVARIANT InvConst2
CHECK_DEADLOCK FALSE
