"""Shared machinery: TLC runner, integer-only encodings, evidence, known findings, reporting.

Everything that decides a property is evaluated by TLC on the TLA+ modules under /verif/spec;
this module only moves data between the real flowdyn code and TLC and keeps the books.
"""
import json, os, re, shutil, subprocess, sys, time, hashlib
from fractions import Fraction

VERIF = os.path.dirname(os.path.dirname(os.path.abspath(__file__)))
SPEC = os.path.join(VERIF, "spec")
RUN = os.path.join(VERIF, "run")
REPLAYS = os.path.join(VERIF, "replays")
REPO = os.environ.get("FLOWDYN_REPO", "/repo")
# evidence describes /repo itself: a run against another tree (FLOWDYN_REPO = a scratch worktree carrying a seeded change or a
# refactoring) writes its evidence under run/ instead, so that it can never replace a committed evidence file (it did once)
EVID = os.path.join(VERIF, "evidence") if os.path.realpath(REPO) == "/repo" else os.path.join(RUN, "evidence_other_tree")
TLA_CP = "/opt/veriftools/tla/tla2tools.jar:/opt/veriftools/tla/CommunityModules-deps.jar"

TOL_ROUNDOFF = 2 ** 22      # ulps (of 2^-52 * scale)  ~ 1e-9 relative
TOL_SOLVER = 2 ** 30        # ~ 2.4e-7 relative (fits TLC 32-bit ints)
ULP_CAP = 2 ** 31 - 1


class MachineryError(Exception):
    """Something in the verification machinery itself failed (exit code 2, never a VIOLATION)."""


def seed():
    try:
        return int(os.environ.get("VERIF_SEED", "20260925"))
    except ValueError:
        return 20260925


_SCRATCH = []


def scratch(name):
    d = os.path.join(RUN, "%s.%d" % (name, os.getpid()))
    shutil.rmtree(d, ignore_errors=True)
    os.makedirs(d)
    if not _SCRATCH:
        import atexit
        atexit.register(lambda: [shutil.rmtree(x, ignore_errors=True) for x in _SCRATCH if not os.environ.get("VERIF_KEEP_SCRATCH")])
    _SCRATCH.append(d)
    return d


# ----------------------------------------------------------------------------- encodings
def rat(x):
    """exact rational [num, den] of a float / int / Fraction; raises if it does not fit TLC's 32-bit ints"""
    f = Fraction(x)
    if abs(f.numerator) >= 2 ** 31 or f.denominator >= 2 ** 31:
        raise OverflowError("rational does not fit 32 bits: %r" % (x,))
    return [f.numerator, f.denominator]


def fits(x):
    f = Fraction(x)
    return abs(f.numerator) < 2 ** 31 and f.denominator < 2 ** 31


SOLVER_BITS = 40            # solver-clause tokens are measured in units of 2^-40 * scale (range up to 2e-3)
TOL_SOLVER40 = 2 ** 24      # ~1.5e-5 relative: finite-difference Jacobians carry ~1e-7 noise that the solves amplify


def ulps(x, y, scale, bits=52):
    """min(ULP_CAP, ceil(|x-y| / (2^-bits * scale))) in exact arithmetic; non finite -> ULP_CAP"""
    import math
    try:
        if not (math.isfinite(x) and math.isfinite(y) and math.isfinite(scale)):
            return ULP_CAP
    except TypeError:
        pass
    d = abs(Fraction(x) - Fraction(y))
    if d == 0:
        return 0
    s = Fraction(scale)
    if s <= 0:
        return ULP_CAP
    q = d / (s * Fraction(1, 2 ** bits))
    c = -((-q.numerator) // q.denominator)
    return int(min(ULP_CAP, c))


def ranks(values):
    """exact ranks of a collection of floats/Fractions: returns (dict value->rank starting at 1, sorted list)"""
    vs = sorted(set(Fraction(v) for v in values))
    return {v: i + 1 for i, v in enumerate(vs)}, vs


def near_pairs(sorted_vals, nulp=4):
    """pairs of ranks whose values differ by at most nulp * 2^-52 * the scale of the collection (its largest magnitude): the
    values are times obtained by adding steps, so the round-off of a time near zero is that of the operands that produced it
    (a run from t = -1/2 reaches 5e-17 instead of 0 with the integrators whose stage weights do not sum to one exactly)"""
    out = []
    n = len(sorted_vals)
    scale = max([abs(v) for v in sorted_vals] or [0])
    for i in range(n):
        j = i + 1
        while j < n:
            a, b = sorted_vals[i], sorted_vals[j]
            if b - a <= nulp * Fraction(1, 2 ** 52) * scale:
                out.append([i + 1, j + 1])
                j += 1
            else:
                break
    return out


def write_ndjson(path, records):
    with open(path, "w") as f:
        for r in records:
            f.write(json.dumps(r, separators=(",", ":")) + "\n")


def read_ndjson(path):
    out = []
    with open(path) as f:
        for line in f:
            line = line.strip()
            if line:
                v = json.loads(line)
                if isinstance(v, str):      # CSVWrite quotes TLA+ strings: a JSON document inside a JSON string
                    v = json.loads(v)
                out.append(v)
    return out


# ----------------------------------------------------------------------------- TLC
class TLCResult:
    def __init__(self):
        self.ok = False
        self.generated = 0
        self.distinct = 0
        self.depth = 0
        self.violated = []        # names of violated invariants / properties
        self.errors = []
        self.stdout = ""
        self.wall = 0.0
        self.coverage = {}        # action name -> (distinct?, count)
        self.cmd = ""

    def summary(self):
        return {"generated": self.generated, "distinct": self.distinct, "depth": self.depth,
                "violated": self.violated, "wall_s": round(self.wall, 2)}


_RE_STATES = re.compile(r"(\d+) states generated, (\d+) distinct states found")
_RE_DEPTH = re.compile(r"depth of the complete state graph search is (\d+)")
_RE_INV = re.compile(r"Invariant (\S+) is violated")
_RE_PROP = re.compile(r"(?:Action property|Temporal property|property) (\S+) (?:is|was) violated", re.I)
_RE_COV = re.compile(r"^<(\w+) line \d+, col \d+ to line \d+, col \d+ of module (\w+)>: (\d+):(\d+)", re.M)


def tlc(module, cfg=None, *, workers=4, env=None, timeout=1800, simulate=None, coverage=False,
        depth=None, deadlock=True, extra=(), heap="3g", dfs=False, cont=False, metadir=None, seedval=None):
    """run TLC on /verif/spec/<module>.tla with <cfg>; returns TLCResult (never raises for violations)"""
    cfg = cfg or (module + ".cfg")
    md = metadir or scratch("meta_" + module)
    cmd = ["java", "-XX:+UseParallelGC", "-Xmx" + heap]
    if dfs:
        cmd.append("-Dtlc2.tool.queue.IStateQueue=StateDeque")
    cmd += ["-cp", TLA_CP, "tlc2.TLC", "-config", cfg, "-workers", str(workers),
            "-metadir", md, "-noGenerateSpecTE"]
    if not deadlock:
        cmd.append("-deadlock")
    if coverage:
        cmd += ["-coverage", "1"]
    if simulate:
        cmd += ["-simulate", simulate]
    if depth:
        cmd += ["-depth", str(depth)]
    if cont:
        cmd.append("-continue")
    if seedval is not None:
        cmd += ["-seed", str(seedval)]
    cmd += list(extra)
    cmd.append(module + ".tla")
    e = dict(os.environ)
    e.pop("JAVA_TOOL_OPTIONS", None)
    if env:
        e.update({k: str(v) for k, v in env.items()})
    r = TLCResult()
    r.cmd = " ".join(cmd)
    t0 = time.time()
    try:
        p = subprocess.run(cmd, cwd=SPEC, env=e, stdout=subprocess.PIPE, stderr=subprocess.STDOUT,
                           timeout=timeout, text=True)
        out = p.stdout
        rc = p.returncode
    except subprocess.TimeoutExpired as ex:
        out = (ex.stdout or "")
        if isinstance(out, bytes):
            out = out.decode("utf8", "replace")
        out += "\nTLC TIMEOUT after %ss\n" % timeout
        rc = -9
    r.wall = time.time() - t0
    r.stdout = out
    for m in _RE_STATES.finditer(out):
        r.generated, r.distinct = int(m.group(1)), int(m.group(2))
    m = _RE_DEPTH.search(out)
    if m:
        r.depth = int(m.group(1))
    r.violated = _RE_INV.findall(out) + _RE_PROP.findall(out)
    for m in _RE_COV.finditer(out):
        r.coverage[m.group(1)] = (int(m.group(3)), int(m.group(4)))
    for line in out.splitlines():
        if line.startswith("Error:") or "TLC TIMEOUT" in line or "Exception" in line:
            r.errors.append(line.strip())
    r.rc = rc
    r.ok = (rc == 0) and not r.violated and not r.errors
    shutil.rmtree(md, ignore_errors=True)
    return r


def apalache(module, inv, timeout=300, init="Init", length=0):
    """symbolic check Init => inv (length 0) of /verif/spec/<module>.tla with Apalache; returns "NoError" (proved for all values
    of the variables), "Error" (refuted: a counterexample exists) or "inconclusive: ..." (tool missing, timeout, unknown)"""
    exe = shutil.which("apalache-mc")
    if exe is None:
        return "inconclusive: apalache-mc not found", 0.0
    out_dir = scratch("apa_%s_%s" % (module, inv))
    e = dict(os.environ)
    e.pop("JAVA_TOOL_OPTIONS", None)
    t0 = time.time()
    try:
        import signal
        p = subprocess.Popen([exe, "check", "--init=" + init, "--inv=" + inv, "--length=%d" % length, "--out-dir=" + out_dir,
                              "--run-dir=" + os.path.join(out_dir, "run"), module + ".tla"],
                             cwd=SPEC, env=e, stdout=subprocess.PIPE, stderr=subprocess.STDOUT, text=True, start_new_session=True)
        try:
            out, _ = p.communicate(timeout=timeout)
            m = re.search(r"The outcome is: (\w+)", out)
            verdict = m.group(1) if m else "inconclusive: no outcome line (rc=%s)" % p.returncode
            if verdict not in ("NoError", "Error"):
                verdict = "inconclusive: " + verdict
        except subprocess.TimeoutExpired:
            os.killpg(p.pid, signal.SIGKILL)          # the wrapper script's JVM too
            p.communicate()
            verdict = "inconclusive: timeout after %ss" % timeout
    except OSError as ex:
        verdict = "inconclusive: %s" % ex
    shutil.rmtree(out_dir, ignore_errors=True)
    return verdict, time.time() - t0


def apalache_suite(rep, module, invs, note, timeout=600, length=0):
    """the clauses of <module> for ALL values of its variables (symbolic); outcomes go to the evidence; a refuted clause means
    the specification itself is wrong (machinery failure); an inconclusive run (tool missing, timeout) is recorded and tolerated:
    the symbolic instances are an addition to the TLC instances, which every check runs anyway"""
    from concurrent.futures import ThreadPoolExecutor
    with ThreadPoolExecutor(max_workers=4) as ex:
        verdicts = list(ex.map(lambda i: apalache(module, i, timeout=timeout, length=length), invs))
    rep.extra.setdefault("apalache_unbounded", {})[module] = {i: {"outcome": v, "wall_s": round(w, 1)} for i, (v, w) in zip(invs, verdicts)}
    for i, (v, _w) in zip(invs, verdicts):
        if v == "Error":
            raise MachineryError("%s: %s is refuted by Apalache" % (module, i))
    if all(v == "NoError" for v, _ in verdicts):
        rep.assumptions.append(note)
    return verdicts


def tlc_must_pass(res, what):
    """a model-level TLC run that must succeed; anything else is a machinery failure (exit 2)"""
    if not res.ok:
        tail = "\n".join(res.stdout.splitlines()[-40:])
        raise MachineryError("%s: TLC did not pass (rc=%s violated=%s)\n%s" % (what, res.rc, res.violated, tail))
    return res


def judge(module, recs, wd, name=None, timeout=3000, heap="6g", unjudgeable=None):
    """run a Judge_* module over records (each with an integer 'id'); returns (list of {id, clause}, TLCResult).
    Total verdicts also when an observation falls outside the judge's own domain (32-bit overflow on garbage numbers, an index
    beyond a table): with `unjudgeable` = a clause name, the record TLC stopped at is reported under that clause and the remaining
    records are judged without it (at most 25 times); on the unchanged tree this never happens (the judges pass)"""
    name = name or module
    jin, jout = os.path.join(wd, name + "_in.ndjson"), os.path.join(wd, name + "_out.ndjson")
    recs = list(recs)
    extra = []
    for _attempt in range(26):
        write_ndjson(jin, recs)
        if os.path.exists(jout):
            os.remove(jout)
        res = tlc(module, module + ".cfg", workers=1, env={"JUDGE_IN": jin, "JUDGE_OUT": jout}, timeout=timeout, heap=heap)
        if res.rc == 0 and "JUDGED" in res.stdout:
            bad = read_ndjson(jout) if os.path.exists(jout) else []
            return bad + extra, res
        at = re.findall(r"^/\\ i = (\d+)\s*$", res.stdout, flags=re.M)
        if unjudgeable is None or not at or _attempt == 25 or int(at[-1]) >= len(recs):
            raise MachineryError(module + " failed:\n" + "\n".join(res.stdout.splitlines()[-30:]))
        k = int(at[-1])                      # TLC stopped while judging record k + 1 (Recs[i'] with i = k)
        extra.append({"id": recs[k]["id"], "clause": unjudgeable})
        del recs[k]
    raise MachineryError(module + " failed")


def sany(module):
    p = subprocess.run(["java", "-cp", TLA_CP, "tla2sany.SANY", module + ".tla"], cwd=SPEC,
                       stdout=subprocess.PIPE, stderr=subprocess.STDOUT, text=True)
    ok = p.returncode == 0 and "Semantic errors" not in p.stdout and "Parsing or semantic analysis failed" not in p.stdout \
        and "*** Errors" not in p.stdout and "Fatal errors" not in p.stdout
    return ok, p.stdout


def printed_lines(stdout, marker):
    """lines that TLC printed through PrintT(<<marker, ...>>) or PrintT("marker...")"""
    return [l for l in stdout.splitlines() if marker in l]


# ----------------------------------------------------------------------------- findings
def load_findings():
    p = os.path.join(VERIF, "known_findings.json")
    if not os.path.exists(p):
        return []
    with open(p) as f:
        return json.load(f).get("findings", [])


def match_finding(findings, prop, clause, sig):
    """a violation (clause + signature dict) is a known finding iff an entry with status 'known' names the same
    property and clause and every key of its signature is matched by the violation's signature"""
    for fd in findings:
        if fd.get("status") != "known" or fd.get("property") != prop:
            continue
        if fd.get("clause") != clause:
            continue
        ok = True
        for k, v in fd.get("signature", {}).items():
            sv = sig.get(k)
            if isinstance(v, list):
                if sv not in v:
                    ok = False
            elif sv != v:
                ok = False
        if ok:
            return fd
    return None


# ----------------------------------------------------------------------------- reporting
class Report:
    """collects what one check run covered and found; prints the interface lines; writes the evidence file"""

    def __init__(self, prop, tier):
        self.prop = prop
        self.tier = tier
        self.t0 = time.time()
        self.states = 0
        self.transitions = 0
        self.traces = 0
        self.evaluations = 0
        self.nontrivial = set()
        self.samples = []
        self.violations = []      # (clause, sig, replay)
        self.known = []
        self.drift = []
        self.tlc_runs = []
        self.extra = {}
        self.assumptions = []
        self.rule = ""
        self.exhaustive = False
        self.vacuous = []
        self.findings = load_findings()

    def add_tlc(self, name, res, counts_as_model=True):
        self.tlc_runs.append(dict(name=name, **res.summary()))
        if counts_as_model:
            self.states += res.distinct
            self.transitions += res.generated

    def sample(self, s, limit=6):
        if len(self.samples) < limit:
            self.samples.append(s)

    def violation(self, clause, sig, case=None):
        """register a property-level violation observed on the real code; decides VIOLATION vs KNOWN-FINDING"""
        fd = match_finding(self.findings, self.prop, clause, sig)
        if fd is not None:
            key = fd.get("id") or fd.get("what")
            if key not in [k[0] for k in self.known]:
                self.known.append((key, fd.get("what", "")))
            return False
        path = None
        if case is not None:
            os.makedirs(REPLAYS, exist_ok=True)
            blob = json.dumps(case, sort_keys=True)
            h = hashlib.sha1(blob.encode()).hexdigest()[:12]
            path = os.path.join(REPLAYS, "%s_%s_%s.json" % (self.prop, clause, h))
            with open(path, "w") as f:
                json.dump({"property": self.prop, "clause": clause, "signature": sig, "case": case}, f, indent=1)
        self.violations.append((clause, sig, path))
        return True

    def finish(self, level="model_checking"):
        wall = time.time() - self.t0
        for key, what in self.known:
            print("KNOWN-FINDING: property=%s %s" % (self.prop, what))
        seen = set()
        for clause, sig, path in self.violations:
            k = (clause, json.dumps(sig, sort_keys=True))
            if k in seen:
                continue
            seen.add(k)
            if len(seen) <= 25:
                print("VIOLATION property=%s replay=%s clause=%s sig=%s" % (
                    self.prop, path or "-", clause, json.dumps(sig, sort_keys=True)))
        for d in self.drift[:10]:
            print("DRIFT property=%s %s" % (self.prop, d))
        cov = {
            "states": int(self.states), "transitions": int(self.transitions),
            "traces_validated_against_impl": int(self.traces),
            "samples": self.samples or ["(no sample recorded)"],
            "evaluations": int(self.evaluations),
            "distinct_nontrivial": int(len(self.nontrivial)),
            "rule": self.rule, "exhaustive": bool(self.exhaustive),
            "tlc_runs": self.tlc_runs, "drift": len(self.drift), "vacuous_clauses": self.vacuous,
            "known_findings_hit": [k for k, _ in self.known],
            "tolerances": {"TolRoundoff_ulps": TOL_ROUNDOFF, "TolSolver_ulps": TOL_SOLVER},
        }
        cov.update(self.extra)
        ev = {"property_id": self.prop, "tier": self.tier, "seed": seed(), "level": level,
              "coverage": cov, "assumptions": self.assumptions, "wall_s": round(wall, 2),
              "violations": len(seen)}
        os.makedirs(EVID, exist_ok=True)
        with open(os.path.join(EVID, self.prop + ".json"), "w") as f:
            json.dump(ev, f, indent=1, default=str)
        print("%s %s: states=%d transitions=%d impl_traces=%d evaluations=%d violations=%d known=%d drift=%d wall=%.1fs" % (
            self.prop, self.tier, self.states, self.transitions, self.traces, self.evaluations,
            len(seen), len(self.known), len(self.drift), wall))
        return 1 if seen else 0
