"""common driver of the checks that share the FVM / model specifications and judges"""
import json
from . import core
from .core import Report


def run_check(prop, tier, rule, assumptions, mc_runs, groups, prefixes, sig_of, exhaustive=True,
              drift_prefix="DRIFT", level="model_checking", extra=None, recs=None, judge_module=None, symbolic=None):
    """groups: list of (judge module, records).  Every record is judged by TLC; failed clauses whose name starts with one
    of `prefixes` are violations of `prop`, clauses starting with DRIFT are informational"""
    if recs is not None:
        groups = [(judge_module, recs)]
    rep = Report(prop, tier)
    rep.rule = rule
    rep.assumptions = assumptions
    for (module, cfg, workers) in mc_runs:
        res = core.tlc(module, cfg, workers=workers, timeout=3300)
        core.tlc_must_pass(res, "%s %s" % (module, cfg))
        rep.add_tlc("%s/%s" % (module, cfg), res)
    rep.exhaustive = exhaustive
    if symbolic:        # (module, invariants, note): the clauses for ALL values (Apalache), in addition to the TLC instances
        core.apalache_suite(rep, *symbolic)
    if extra:
        rep.extra.update(extra)
    ndrift = 0
    for gi, (jm, rs) in enumerate(groups):
        if not rs:
            continue
        for k, r in enumerate(rs):
            r["id"] = k + 1
            rep.nontrivial.add(json.dumps({x: r[x] for x in r if x != "id"}, sort_keys=True, default=str)[:600])
        rep.evaluations += len(rs)
        kinds = []
        for r in rs:
            kk = (r["kind"], r.get("rel", ""))
            if kk not in kinds:
                kinds.append(kk)
                rep.sample(r, limit=12)
        wd = core.scratch("%s_%d" % (prop.lower(), gi))
        bad, jr = core.judge(jm, rs, wd, unjudgeable=prefixes[0] + "_unjudgeable")
        rep.add_tlc(jm, jr, counts_as_model=False)
        rep.traces += len(rs)
        byid = {r["id"]: r for r in rs}
        for b in bad:
            r = byid[b["id"]]
            cl = b["clause"]
            if cl.startswith(drift_prefix):
                ndrift += 1
                if len(rep.drift) < 10:
                    rep.drift.append("%s on %s" % (cl, sig_of(r)))
                continue
            if not cl.startswith(tuple(prefixes)):
                continue
            rep.violation(cl, sig_of(r), r)
    rep.extra["drift_total"] = ndrift
    return rep.finish(level)
