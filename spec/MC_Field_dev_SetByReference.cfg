SPECIFICATION Spec
CONSTANTS
  Vals <- ValsQ
  Times <- TimesQ
  MaxFld = 3
  MaxArr = 6
  MaxOps = 3
  FieldDeviations = {"SetByReference"}
INVARIANT NoAlias
INVARIANT ListView
PROPERTY WritesAreLocal
CHECK_DEADLOCK FALSE
