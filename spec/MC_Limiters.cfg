SPECIFICATION Spec
CONSTANTS
  Bound = 12
  Dens = {1, 3}
INVARIANT Region
INVARIANT Symmetric
INVARIANT Odd
INVARIANT Homogeneous
INVARIANT Idempotent
INVARIANT SecondOrder
CHECK_DEADLOCK FALSE
