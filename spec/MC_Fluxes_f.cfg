SPECIFICATION Spec
CONSTANTS
  Rhos <- RhosF
  Us <- UsF
  Cs <- CsF
  Gammas <- GammasF
  Gs <- GsF
  FluxDeviations = {}
INVARIANT Consistency
INVARIANT Mirror
INVARIANT Upwind
INVARIANT Eigen
CHECK_DEADLOCK FALSE
