"""builders for real flowdyn objects used by several checks (meshes, models, reconstructions, fields)"""
import os, sys
import numpy as np
from . import core

sys.path.insert(0, core.REPO)
os.environ.setdefault("MPLBACKEND", "Agg")
import flowdyn.mesh as mesh              # noqa: E402
import flowdyn.mesh2d as mesh2d          # noqa: E402
import flowdyn.modeldisc as modeldisc    # noqa: E402
import flowdyn.field as field            # noqa: E402
import flowdyn.xnum as xnum              # noqa: E402
import flowdyn.integration as tnum       # noqa: E402
import flowdyn.modelphy.convection as conv      # noqa: E402
import flowdyn.modelphy.burgers as burgers      # noqa: E402
import flowdyn.modelphy.shallowwater as sw      # noqa: E402
import flowdyn.modelphy.euler as euler          # noqa: E402

# ----------------------------------------------------------------------------- models live among other models
_real = {"conv": conv, "burgers": burgers, "sw": sw, "euler": euler}


def _decoys():
    """other models of every family, with other parameters, constructed AFTER the model under test (a process usually holds
    several models: a model's answers are a function of its own parameters, not of which other models exist or were built last)"""
    e = _real["euler"]
    try:
        e.euler1d(gamma=1.1)
        e.euler2d(gamma=1.9)
        e.nozzle(lambda x: 1.0 + 0.0 * x, gamma=1.25)
        _real["sw"].shallowwater1d(g=3.3)
        _real["conv"].model(7.7)
        _real["burgers"].model()
    except Exception:
        pass


class _Family:
    """the model module, except that every model class it exposes builds the decoys right after the requested model"""

    def __init__(self, mod):
        self._mod = mod

    def __getattr__(self, name):
        obj = getattr(self._mod, name)
        if isinstance(obj, type) and hasattr(obj, "cons2prim"):
            def build(*a, **k):
                m = obj(*a, **k)
                _decoys()
                return m
            build.__name__ = name
            return build
        return obj


conv, burgers, sw, euler = _Family(conv), _Family(burgers), _Family(sw), _Family(euler)

# ----------------------------------------------------------------------------- operators live among other operators
_real_modeldisc = modeldisc


def _sibling_mesh(m):
    """same cell count, origin and length (1D) / same nx, ny (2D), other cell positions / sizes"""
    if hasattr(m, "nx"):
        return mesh2d.mesh2d(m.nx, m.ny, m.lx * 2.0, m.ly * 0.5) if hasattr(m, "lx") else None
    n = m.ncell
    if n < 2:
        return None
    xf = np.asarray(m.xf, dtype=float)
    xi = np.linspace(0.0, 1.0, n + 1)
    faces = xf[0] + (xf[-1] - xf[0]) * (xi + 0.3 * xi * (1.0 - xi))
    faces[-1] = xf[-1]
    ref = np.linspace(0.0, 1.0, n + 1)
    sib = mesh.morphedmesh(ncell=n, length=1.0, morph=lambda x: np.interp(x, ref, faces))
    if hasattr(m, "length"):
        sib.length = m.length
    return sib


class _Operators:
    """flowdyn.modeldisc, except that every operator it builds gets a SIBLING: an operator with the same model object, the same
    reconstruction object and the same boundary conditions on a sibling mesh, built right after it and evaluated once (on the same
    data) before the first evaluation of the judged operator.  Whatever a model, a reconstruction or a mesh-independent helper
    remembers from serving another mesh then shows up in every operator-level check (C01, C03, C09, C10, C13, C14, C15, C19)"""

    def __getattr__(self, name):
        obj = getattr(_real_modeldisc, name)
        if not (isinstance(obj, type) and hasattr(obj, "rhs")):
            return obj

        def build(model, m, num, *a, **k):
            op = obj(model, m, num, *a, **k)
            try:
                sm = _sibling_mesh(m)
                sib = obj(model, sm, num, *a, **k) if sm is not None else None
            except Exception:
                sib = None
            if sib is not None:
                real_rhs = op.rhs
                state = {"primed": False}

                def rhs(f):
                    if not state["primed"]:
                        state["primed"] = True
                        try:
                            with np.errstate(all="ignore"):
                                sib.rhs(field.fdata(f.model, sib.mesh, [np.array(d, dtype=float, copy=True) for d in f.data], t=f.time))
                        except Exception:
                            pass
                    return real_rhs(f)
                op.rhs = rhs
            return op
        build.__name__ = name
        return build


modeldisc = _Operators()

LIMITERS = ["minmod", "vanalbada", "vanleer", "superbee"]
LINEAR_RECONS = ["extrapol1", "extrapol2", "k-1", "k0", "k1/3", "k1/2", "k1"]
ALL_RECONS = LINEAR_RECONS + ["muscl_" + l for l in LIMITERS]
# token-level (metamorphic, round-off) checks also run MUSCL with a USER limiter that is not symmetric in its two arguments
# (xnum.muscl takes any callable): a limited kappa = 1/3 slope, odd, homogeneous, phi(a, a) = a, inside the TVD region
TOKEN_RECONS = ALL_RECONS + ["muscl_user"]


def user_limiter(a, b):
    return (2.0 * xnum.minmod(a, 2.0 * b) + xnum.minmod(b, 2.0 * a)) / 3.0

KVAL = {"k-1": -1.0, "k0": 0.0, "k1/3": 1.0 / 3.0, "k1/2": 0.5, "k1": 1.0}


_POOL = {}


def recon(name, fresh=False):
    """reconstruction object by name.  Instances are POOLED (one per name and process) and therefore reused across
    meshes, models and discretisations, as user code does (`xsch = xnum.muscl(minmod)` shared by several operators):
    a reconstruction object that keeps hidden state from an earlier mesh then shows up in every operator-level check"""
    if not fresh:
        if name not in _POOL:
            _POOL[name] = recon(name, fresh=True)
        # schemes live among other schemes: instances of the same classes with other parameters are created afterwards
        try:
            xnum.extrapolk(-0.123), xnum.muscl(xnum.superbee), xnum.muscl(xnum.minmod), xnum.extrapol2(), xnum.extrapol2dk(0.777)
        except Exception:
            pass
        return _POOL[name]
    if name == "extrapol1":
        return xnum.extrapol1()
    if name == "extrapol2":
        return xnum.extrapol2()
    if name == "extrapol3":
        return xnum.extrapol3()
    if name in KVAL:
        return xnum.extrapolk(KVAL[name])
    if name == "muscl_user":
        return xnum.muscl(user_limiter)
    if name.startswith("muscl_"):
        return xnum.muscl(getattr(xnum, name[6:]))
    raise KeyError(name)


def mesh_from_faces(xf):
    """a real mesh object with exactly these faces: morphedmesh onto the face list (piecewise-linear morphing)"""
    xf = np.asarray(xf, dtype=float)
    n = len(xf) - 1
    ref = np.linspace(0.0, 1.0, n + 1)
    m = mesh.morphedmesh(ncell=n, length=1.0, morph=lambda x: np.interp(x, ref, xf))
    # the pinned morphedmesh keeps the un-morphed length (C20 / D13); the periodic seam needs the real one
    return m


def dyadic_faces(rnd, n, widths=(0.25, 0.5, 1.0, 2.0), x0=0.0):
    w = [rnd.choice(widths) for _ in range(n)]
    return np.concatenate([[x0], x0 + np.cumsum(w)])


def uniform(n, length=1.0, x0=0.0):
    return mesh.unimesh(ncell=n, length=length, x0=x0)


def recon2(r):
    """pooled 2D reconstruction object: r = ("e1", None) or ("k", kappa)"""
    key = ("2d", r[0], r[1])
    if key not in _POOL:
        _POOL[key] = xnum.extrapol2d1() if r[0] == "e1" else xnum.extrapol2dk(r[1])
    return _POOL[key]
