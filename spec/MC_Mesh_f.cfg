SPECIFICATION Spec
CONSTANTS
  MaxN = 8
  MaxNx = 6
INVARIANT Partition1D
INVARIANT RefinedZones
INVARIANT Tables2D
INVARIANT CellFaces
CHECK_DEADLOCK FALSE
