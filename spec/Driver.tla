------------------------------- MODULE Driver -------------------------------
(***************************************************************************)
(* The solve / restart / _solve driver of flowdyn.integration.timemodel,   *)
(* one action per stage of the loop, written to be bound to the code:      *)
(*                                                                         *)
(*   Call      solve()/restart(): reset counters, copy the caller's field  *)
(*   Mon       _parse_monitors (evaluated on Qn, keyed by totnit())        *)
(*   Skip      skip save times earlier than the start                      *)
(*   PreSave   save times equal to the start: the initial state itself     *)
(*   IterBegin calc_timestep on Qn (the TimeStep seam)                     *)
(*   SideStep  snapshot: step a copy onto the save time with a throw-away  *)
(*             copy of the integrator, stamp `it`, append, discard         *)
(*   MainStep  the full step, nit += 1                                     *)
(*   CheckEnd  stop criteria; append the final state if nothing was saved  *)
(*   Return    hand the list back                                          *)
(*                                                                         *)
(* and the older driver solve_legacy(), which is still public:             *)
(*   LegacyCall   reset counters, copy the caller's field (the multistep   *)
(*                history is NOT forgotten, no monitors, no stop criteria) *)
(*   LegacyIter   calc_timestep; the MAIN step itself is clipped onto the  *)
(*                next save time (so snapshots are trajectory points and   *)
(*                clipped passes count as iterations); a pass whose step   *)
(*                is not positive moves nothing but is counted             *)
(*   LegacyReturn                                                          *)
(*                                                                         *)
(* Times live on an integer lattice (sixteenths; zero and negative times    *)
(* included, never -1, which is the "absent" mark of stop criteria).  Field data are TERMS:   *)
(* the sequence of steps applied since the origin, each tagged with the    *)
(* hidden multistep state it consumed.  Two data are equal iff they were   *)
(* produced by the same steps from the same hidden state, which is exactly *)
(* what "the state depends only on the initial field, the integrator and   *)
(* the CFL number" (C08) and "the snapshot lies on the trajectory" (C07)   *)
(* talk about.  The real code is projected onto the same terms by the      *)
(* harness (harness/driver_obs.py).                                        *)
(*                                                                         *)
(* Deviations names behaviours of the pinned code that break a property;   *)
(* with Deviations = {} the specification mirrors the repaired code.       *)
(***************************************************************************)
EXTENDS Integers, Sequences, FiniteSets, TLC

CONSTANTS Scripts,      \* set of scripts (sequences of call records) to explore
          Kinds,        \* subset of {"onestep", "implicit", "gear"}
          DtProfiles,   \* subset of {"c4", "c3", "var"}
          T0s,          \* start times of the user's initial field
          Deviations    \* subset of AllDeviations

None == -1
NaN    == <<[h |-> 0, tag |-> "nan", m |-> "g"]>>      \* data of a field that holds NaN
NoLast == <<[h |-> 0, tag |-> "nolast", m |-> "g"]>>   \* the solver object has no multistep history

AllDeviations == {"SaveOnePerIter",       \* D3: `if` instead of `while` around the snapshot branch
                  "NoPreSave",            \* D4/D16: no treatment of save times equal to the start
                  "GearDoubleAdd",        \* D1: gear start-up adds the increment twice
                  "SideStepWritesHidden", \* D2a: snapshot steps overwrite the multistep history
                  "HiddenSurvivesSolve",  \* D2b: solve() does not forget the multistep history
                  "StaleItTag",           \* D5: the final state keeps the caller's `it`
                  "StaleCfl",             \* seeded: the time step of the first call is cached on the solver object
                  "StickyDirective",      \* seeded: the dtlocal directive of an earlier call stays on the solver object
                  "ZeroTottimeIgnored"}   \* seeded: a stop time of exactly 0 is taken for "no stop time"

VARIABLES kind, prof,   \* integrator kind and time-step profile of this solver object (fixed per behaviour)
          script,       \* calls still to make
          call,         \* the active call (record) or None
          f0,           \* the user's initial field
          arg,          \* the field the active call was given
          pc,
          nit, itstart, stime,   \* solver counters: _nit, _itstart, _time
          last,         \* hidden multistep state (_lastresidual): NoLast or the data it was produced with
          last0,        \* the hidden state the active call started from (history variable)
          qn,           \* current state Qn = [t, it, d]
          dt,           \* mindtloc of the current iteration
          isave, results,
          traj,         \* main-trajectory points of the active call: <<[t, dt, d]>> (history variable)
          mon,          \* monitor output of the active call: <<[f, it, t, d]>>
          monAcc,       \* monitor outputs surviving from earlier calls (restart keeps them)
          hist          \* outcomes of completed calls

vars == <<kind, prof, script, call, f0, arg, pc, nit, itstart, stime, last, last0, qn, dt, isave, results,
          traj, mon, monAcc, hist>>

-----------------------------------------------------------------------------
(* time-step profiles: dt is a function of the presented field's time only,  *)
(* as calc_timestep is a function of the presented field only, TIMES the    *)
(* CFL number of the ACTIVE call (call.cfl, an integer multiplier): nothing  *)
(* of an earlier call's CFL number survives on the solver object            *)
Dt(p, t) == CASE p = "c4"  -> 4
              [] p = "c3"  -> 3
              [] p = "var" -> IF t % 8 = 0 THEN 4 ELSE 2
              [] OTHER     -> 4

(* one integrator step on terms; returns [t, d, last]                        *)
Tag(lst, d) == IF lst = NoLast THEN "none" ELSE IF lst = d THEN "own" ELSE "foreign"

(* m = "g": one scalar step for every cell; m = "l": the per-cell step array of the dtlocal directive (whose minimum is h) *)
StepTermM(k, t, d, h, lst, m) ==
  IF d = NaN THEN [t |-> t + h, d |-> NaN, last |-> lst]
  ELSE CASE k = "onestep" ->
              [t |-> t + h, d |-> IF h = 0 THEN d ELSE Append(d, [h |-> h, tag |-> "na", m |-> m]), last |-> lst]
         [] k = "implicit" ->     \* divides by dt: a zero-length step yields NaN
              [t |-> t + h, d |-> IF h = 0 THEN NaN ELSE Append(d, [h |-> h, tag |-> "na", m |-> m]), last |-> lst]
         [] k = "gear" ->
              IF h = 0 \/ lst = NaN THEN [t |-> t + h, d |-> NaN, last |-> NaN]
              ELSE IF lst = NoLast /\ "GearDoubleAdd" \in Deviations
                   THEN LET nd == Append(d, [h |-> h, tag |-> "none2x", m |-> m])
                        IN [t |-> t + 2*h, d |-> nd, last |-> nd]
                   ELSE LET nd == Append(d, [h |-> h, tag |-> Tag(lst, d), m |-> m])
                        IN [t |-> t + h, d |-> nd, last |-> nd]
StepTerm(k, t, d, h, lst) == StepTermM(k, t, d, h, lst, "g")

CflNow == IF "StaleCfl" \in Deviations /\ hist # <<>> THEN hist[1].cfl ELSE call.cfl
DtNow(t) == CflNow * Dt(prof, t)
(* the directives of a call are that call's: the main step uses the per-cell array iff THIS call asked for dtlocal *)
DtlNow == call.dtl \/ ("StickyDirective" \in Deviations /\ \E k \in 1..Len(hist) : hist[k].dtl)
ModeNow == IF DtlNow THEN "l" ELSE "g"

EffTot(c) == IF c.tot # None /\ ~("ZeroTottimeIgnored" \in Deviations /\ c.tot = 0) THEN c.tot
             ELSE IF Len(c.tsave) > 0 THEN c.tsave[Len(c.tsave)] ELSE None

End(c, t, n) == (EffTot(c) # None /\ t >= EffTot(c)) \/ (c.maxit # None /\ n >= c.maxit)

MonDue(c, tn) == {f \in c.freqs : tn % f = 0}

-----------------------------------------------------------------------------
Init ==
  /\ kind \in Kinds /\ prof \in DtProfiles
  /\ script \in Scripts
  /\ \E t0 \in T0s : f0 = [t |-> t0, it |-> None, d |-> <<>>]
  /\ call = None /\ arg = None /\ pc = "idle"
  /\ nit = 0 /\ itstart = 0 /\ stime = 0 /\ last = NoLast /\ last0 = NoLast
  /\ qn = None /\ dt = 0 /\ isave = 1 /\ results = <<>> /\ traj = <<>>
  /\ mon = <<>> /\ monAcc = <<>> /\ hist = <<>>

(* the field a call is given: the user's f0, or the last field returned by the previous call *)
ArgOf(c) == IF c.from = "f0" THEN f0
            ELSE LET o == hist[Len(hist)] IN o.res[Len(o.res)]

Call ==
  /\ pc = "idle" /\ script # <<>> /\ Head(script).op # "legacy"
  /\ LET c == Head(script) IN
     /\ (c.from = "last") => (Len(hist) > 0 /\ Len(hist[Len(hist)].res) > 0)
     /\ LET f == ArgOf(c) IN
        /\ call' = c /\ arg' = f
        /\ script' = Tail(script)
        /\ nit' = 0
        /\ itstart' = IF c.op = "solve" THEN 0 ELSE IF f.it > 0 THEN f.it ELSE 0
        /\ stime' = f.t
        /\ last' = IF c.op = "solve" /\ "HiddenSurvivesSolve" \notin Deviations THEN NoLast ELSE last
        /\ last0' = last'
        /\ monAcc' = IF c.op = "solve" THEN <<>> ELSE monAcc
        /\ mon' = <<>>
        /\ qn' = f
        /\ results' = <<>> /\ isave' = 1 /\ traj' = <<>> /\ dt' = 0
        /\ pc' = "mon0"
  /\ UNCHANGED <<kind, prof, f0, hist>>

(* _parse_monitors: one entry per monitor whose frequency divides totnit() *)
RECURSIVE SetToSeq(_)
SetToSeq(S) == IF S = {} THEN <<>> ELSE LET x == CHOOSE y \in S : \A z \in S : y <= z
                                       IN <<x>> \o SetToSeq(S \ {x})

Mon ==
  /\ pc \in {"mon0", "mon"}
  /\ LET due == SetToSeq(MonDue(call, itstart + nit))
     IN mon' = mon \o [i \in 1..Len(due) |-> [f |-> due[i], it |-> itstart + nit, t |-> stime, d |-> qn.d]]
  /\ pc' = IF pc = "mon0" THEN "skip" ELSE "chk"
  /\ UNCHANGED <<kind, prof, script, call, f0, arg, nit, itstart, stime, last, last0, qn, dt, isave, results,
                 traj, monAcc, hist>>

Skip ==
  /\ pc = "skip"
  /\ IF isave <= Len(call.tsave) /\ qn.t > call.tsave[isave]
     THEN isave' = isave + 1 /\ pc' = pc
     ELSE isave' = isave /\ pc' = "presave"
  /\ UNCHANGED <<kind, prof, script, call, f0, arg, nit, itstart, stime, last, last0, qn, dt, results,
                 traj, mon, monAcc, hist>>

PreSave ==
  /\ pc = "presave"
  /\ IF "NoPreSave" \notin Deviations /\ isave <= Len(call.tsave) /\ qn.t = call.tsave[isave]
     THEN /\ results' = Append(results, [t |-> qn.t, it |-> itstart + nit, d |-> qn.d])
          /\ isave' = isave + 1 /\ pc' = pc
     ELSE /\ UNCHANGED <<results, isave>> /\ pc' = "loop"
  /\ UNCHANGED <<kind, prof, script, call, f0, arg, nit, itstart, stime, last, last0, qn, dt,
                 traj, mon, monAcc, hist>>

IterBegin ==
  /\ pc = "loop" /\ ~End(call, stime, nit)
  /\ dt' = DtNow(qn.t)
  /\ traj' = Append(traj, [t |-> qn.t, dt |-> DtNow(qn.t), d |-> qn.d])
  /\ pc' = "save"
  /\ UNCHANGED <<kind, prof, script, call, f0, arg, nit, itstart, stime, last, last0, qn, isave, results,
                 mon, monAcc, hist>>

SideStep ==
  /\ pc = "save"
  /\ IF isave <= Len(call.tsave) /\ qn.t + dt >= call.tsave[isave]
     THEN LET s == StepTerm(kind, qn.t, qn.d, call.tsave[isave] - qn.t, last)
          IN /\ results' = Append(results, [t |-> s.t, it |-> itstart + nit, d |-> s.d])
             /\ isave' = isave + 1
             /\ last' = IF "SideStepWritesHidden" \in Deviations THEN s.last ELSE last
             /\ pc' = IF "SaveOnePerIter" \in Deviations THEN "main" ELSE pc
     ELSE /\ UNCHANGED <<results, isave, last>> /\ pc' = "main"
  /\ UNCHANGED <<kind, prof, script, call, f0, arg, nit, itstart, stime, last0, qn, dt, traj, mon, monAcc, hist>>

MainStep ==
  /\ pc = "main"
  /\ LET s == StepTermM(kind, qn.t, qn.d, dt, last, ModeNow)      \* (snapshots are always taken with one scalar step)
     IN /\ qn' = [t |-> s.t, it |-> qn.it, d |-> s.d]
        /\ last' = s.last
        /\ stime' = s.t
  /\ nit' = nit + 1
  /\ pc' = "mon"
  /\ UNCHANGED <<kind, prof, script, call, f0, arg, itstart, last0, dt, isave, results, traj, mon, monAcc, hist>>

CheckEnd ==
  /\ pc = "chk"
  /\ IF End(call, stime, nit) /\ results = <<>>
     THEN LET tag == IF "StaleItTag" \in Deviations THEN qn.it ELSE itstart + nit
          IN /\ qn' = [qn EXCEPT !.it = tag]
             /\ results' = <<[t |-> qn.t, it |-> tag, d |-> qn.d]>>
     ELSE UNCHANGED <<qn, results>>
  /\ pc' = "loop"
  /\ UNCHANGED <<kind, prof, script, call, f0, arg, nit, itstart, stime, last, last0, dt, isave, traj, mon, monAcc, hist>>

(* what a call leaves behind, in the vocabulary shared with the conformance judge (Contract.tla) *)
Outcome == [op |-> call.op, t0 |-> arg.t, it0 |-> arg.it, d0 |-> arg.d, tsave |-> call.tsave,
            tot |-> call.tot, maxit |-> call.maxit, freqs |-> call.freqs, cfl |-> call.cfl, dtl |-> call.dtl,
            nit |-> nit, totnit |-> itstart + nit, itstart |-> itstart,
            tfin |-> qn.t, dfin |-> qn.d, traj |-> traj, res |-> results,
            mon |-> mon, monAll |-> monAcc \o mon,
            tag0 |-> Tag(last0, arg.d), cont |-> (call.from = "last")]

Return ==
  /\ pc = "loop" /\ End(call, stime, nit)
  /\ hist' = Append(hist, Outcome)
  /\ monAcc' = monAcc \o mon
  /\ pc' = "idle"
  /\ UNCHANGED <<kind, prof, script, call, f0, arg, nit, itstart, stime, last, last0, qn, dt, isave, results, traj, mon>>

-----------------------------------------------------------------------------
(* solve_legacy: for each save time, iterate until the (clipped) step lands on it *)
LegacyCall ==
  /\ pc = "idle" /\ script # <<>> /\ Head(script).op = "legacy"
  /\ LET c == Head(script) IN
     /\ (c.from = "last") => (Len(hist) > 0 /\ Len(hist[Len(hist)].res) > 0)
     /\ LET f == ArgOf(c) IN
        /\ call' = c /\ arg' = f /\ script' = Tail(script)
        /\ nit' = 0 /\ itstart' = 0 /\ stime' = f.t
        /\ last0' = last /\ UNCHANGED last          \* nothing forgets the BDF2 history here
        /\ mon' = <<>> /\ UNCHANGED monAcc
        /\ qn' = f /\ results' = <<>> /\ isave' = 1 /\ traj' = <<>> /\ dt' = 0
        /\ pc' = "lg_loop"
  /\ UNCHANGED <<kind, prof, f0, hist>>

LegacyIter ==
  /\ pc = "lg_loop" /\ isave <= Len(call.tsave)
  /\ LET d    == DtNow(qn.t)
         clip == qn.t + d >= call.tsave[isave]
         h    == IF clip THEN call.tsave[isave] - qn.t ELSE d
         s    == IF h > 0 THEN StepTerm(kind, qn.t, qn.d, h, last) ELSE [t |-> qn.t, d |-> qn.d, last |-> last]
     IN /\ dt' = h
        /\ traj' = Append(traj, [t |-> qn.t, dt |-> d, d |-> qn.d])      \* the CFL step offered; h is what was taken
        /\ nit' = nit + 1
        /\ qn' = [t |-> s.t, it |-> qn.it, d |-> s.d]
        /\ last' = s.last
        /\ IF clip THEN /\ results' = Append(results, [t |-> s.t, it |-> qn.it, d |-> s.d])
                        /\ isave' = isave + 1
                   ELSE UNCHANGED <<results, isave>>
  /\ UNCHANGED <<kind, prof, script, call, f0, arg, pc, itstart, stime, last0, mon, monAcc, hist>>

LegacyReturn ==
  /\ pc = "lg_loop" /\ isave > Len(call.tsave)
  /\ hist' = Append(hist, Outcome)
  /\ pc' = "idle"
  /\ UNCHANGED <<kind, prof, script, call, f0, arg, nit, itstart, stime, last, last0, qn, dt, isave, results, traj, mon, monAcc>>

Next == Call \/ Mon \/ Skip \/ PreSave \/ IterBegin \/ SideStep \/ MainStep \/ CheckEnd \/ Return
        \/ LegacyCall \/ LegacyIter \/ LegacyReturn

Spec == Init /\ [][Next]_vars

-----------------------------------------------------------------------------
(* Action-level facts (checked as action properties by TLC)                  *)
MainAdvancesByDt == [][pc = "main" /\ pc' = "mon" => (qn'.t = qn.t + dt \/ "GearDoubleAdd" \in Deviations)]_vars
NitCountsMainSteps == [][(nit' # nit) => ((pc \in {"main", "lg_loop"} /\ nit' = nit + 1) \/ (pc = "idle" /\ nit' = 0))]_vars
LegacyNeverSteppsBack == [][pc = "lg_loop" /\ pc' = "lg_loop" => qn'.t >= qn.t]_vars
CallerFieldUntouched == [][f0' = f0]_vars
SaveIndexMonotone == [][isave' >= isave \/ pc = "idle"]_vars
=============================================================================
