---------------------------- MODULE Judge_FVM1D ----------------------------
(***************************************************************************)
(* Judge for the 1D space operator (C01 operator clause, C03, C11, C13,     *)
(* C14, C19): observations of the REAL fvm1d made at the model seam.        *)
(*                                                                         *)
(* kind "rhs"    one rhs evaluation with the generic table flux on dyadic   *)
(*               data (exact regime): faces xf, data d, face states pL, pR, *)
(*               face fluxes fl, residual res, optional sources src -- all  *)
(*               exact rationals;                                           *)
(* kind "tok"    the same identities on general meshes / real fluxes, as    *)
(*               defects measured in ulps by the harness (round-off clause);*)
(* kind "shift"  residuals of cyclically shifted data on a periodic mesh;   *)
(* kind "mirror" residuals of a problem and of its mirror image;            *)
(* kind "stencil" the operator applied to every unit impulse.               *)
(***************************************************************************)
EXTENDS FVM1D, Json, IOUtils, SequencesExt
TolRoundoff == 4194304
TolSolver == 1073741824

Recs == ndJsonDeserialize(IOEnv.JUDGE_IN)
VARIABLES i, bad

BcOf(b) == [type |-> b.type, val |-> FromPair(b.val)]
IsConst(d) == \A c \in 1..Len(d) : d[c] = d[1]
Compatible(b, c0) == b.type # "dirichlet" \/ b.val = c0

FailedRhs(r) ==
  LET xf == VecFrom(r.xf) d == VecFrom(r.d) pL == VecFrom(r.pL) pR == VecFrom(r.pR)
      fl == VecFrom(r.fl) res == VecFrom(r.res) src == VecFrom(r.src)
      n == Len(d) v == VOL(xf) bl == BcOf(r.bcl) br == BcOf(r.bcr)
      period == FromPair(r.period)
      total == RSum([c \in 1..n |-> RMul(v[c], res[c])])
      srct == RSum([c \in 1..n |-> RMul(v[c], src[c])])
  IN {c \in {"C01_operator", "C01_periodic", "C03_uniform", "C11_constant", "C11_first_order", "C11_linear",
             "C19_source", "DRIFT_faces", "DRIFT_residual"} :
       ~ CASE c = "C01_operator" -> total = RAdd(RSub(fl[1], fl[n + 1]), srct)
           [] c = "C01_periodic" -> bl.type = "per" => (fl[1] = fl[n + 1] /\ total = srct)
           [] c = "C03_uniform"  -> (IsConst(d) /\ Compatible(bl, d[1]) /\ Compatible(br, d[1]) /\ r.hassrc = 0) =>
                                       \A k \in 1..n : res[k] = Zero
           [] c = "C11_constant" -> (IsConst(d) /\ Compatible(bl, d[1]) /\ Compatible(br, d[1])) =>
                                       \A f \in 1..(n + 1) : pL[f] = d[1] /\ pR[f] = d[1]
           [] c = "C11_first_order" -> r.recon = "extrapol1" =>
                                       /\ \A f \in 2..(n + 1) : pL[f] = d[f - 1]
                                       /\ \A f \in 1..n : pR[f] = d[f]
           [] c = "C11_linear"   -> (r.lin = 1 /\ r.recon # "extrapol1") =>
                                       LET al == FromPair(r.alpha) be == FromPair(r.beta)
                                           at(f) == RAdd(al, RMul(be, xf[f]))
                                       IN \A k \in 2..(n - 1) : pL[k + 1] = at(k + 1) /\ pR[k] = at(k)
           [] c = "C19_source"   -> TRUE   \* judged on "src" records (difference of two operators)
           [] c = "DRIFT_faces"  -> (r.specrecon = 1) =>
                                       LET fs == FaceStates(xf, period, d, r.recon, bl, br) IN fs[1] = pL /\ fs[2] = pR
           [] c = "DRIFT_residual" -> \A k \in 1..n : res[k] = RAdd(RDiv(RSub(fl[k], fl[k + 1]), v[k]), src[k])}

FailedTok(r) ==
  {c \in {"C01_operator", "C01_periodic", "C01_wall", "C01_solve", "C03_uniform", "C03_solve", "C11_constant", "C11_linear",
          "C13_mirror", "C13_scaling", "C14_shift"} :
     ~ CASE c = "C01_operator" -> r.cons <= TolRoundoff
         [] c = "C01_periodic" -> r.perflux <= TolRoundoff
         [] c = "C01_wall"     -> r.wall <= TolRoundoff
         [] c = "C03_uniform"  -> r.unif <= TolRoundoff
         [] c = "C11_constant" -> r.const = 0          \* bitwise
         [] c = "C11_linear"   -> r.linear <= TolRoundoff
         [] c = "C01_solve"    -> r.solve <= (IF r.implicit = 1 THEN TolSolver ELSE TolRoundoff)
         [] c = "C03_solve"    -> r.unifsolve <= (IF r.implicit = 1 THEN TolSolver ELSE TolRoundoff)
         [] c = "C13_mirror"   -> r.mirror <= TolRoundoff     \* implicit runs are pre-scaled by the harness (solver clause)
         [] c = "C13_scaling"  -> r.scaling = 0 /\ r.scalero <= TolRoundoff   \* bitwise for power-of-two unit changes (smooth
                                                                            \* limiters: up to their regularisation constants)
         [] c = "C14_shift"    -> r.shift <= TolRoundoff}

FailedShift(r) ==
  LET R0 == VecFrom(r.res0) IN
  IF \A k \in 1..Len(r.shifts) : VecFrom(r.shifts[k].res) = Roll(R0, r.shifts[k].k) THEN {} ELSE {"C14_shift"}

FailedMirror(r) == IF VecFrom(r.resm) = Rev(VecFrom(r.res)) THEN {} ELSE {"C13_mirror"}

(* kappa stencil: column j of the operator (dx, speed a) = circulant KappaStencil(k) / dx, mirrored for a < 0 *)
FailedStencil(r) ==
  LET n == r.n st == KappaStencil(FromPair(r.k)) dx == FromPair(r.dx) a == FromPair(r.a)
      pos(c, j, m) == IF RSign(a) > 0 THEN ((((c + m - j) % n) + n) % n) = 0 ELSE ((((c - m - j) % n) + n) % n) = 0
      col(j) == [c \in 1..n |-> RMul(RDiv(RAbs(a), dx), RSum([m \in 1..4 |-> IF pos(c, j, m - 3) THEN st[m - 3] ELSE Zero]))]
  IN IF \A j \in 1..n : VecFrom(r.cols[j]) = col(j) THEN {} ELSE {"C11_kappa_stencil"}

FailedSrc(r) ==
  (* rhs_with - rhs_without = source_i(x, Q) on equation i, 0 elsewhere; every callable got (centres, conservative data) *)
  {c \in {"C19_source", "C19_arguments"} :
     ~ CASE c = "C19_source" -> r.diff <= r.tol
         [] c = "C19_arguments" -> r.args = 1}

Failed(r) == CASE r.kind = "rhs" -> FailedRhs(r) [] r.kind = "tok" -> FailedTok(r) [] r.kind = "shift" -> FailedShift(r)
               [] r.kind = "mirror" -> FailedMirror(r) [] r.kind = "stencil" -> FailedStencil(r)
               [] r.kind = "src" -> FailedSrc(r)
               \* flowdyn raised an exception on an admissible case: every clause that needs a result fails
               [] r.kind = "raised" -> {"C01_raised", "C03_raised", "C09_raised", "C11_raised", "C13_raised", "C14_raised", "C19_raised"}
               [] OTHER -> {"unknown_record"}
Init == i = 0 /\ bad = <<>>
Step == /\ i < Len(Recs) /\ i' = i + 1
        /\ bad' = bad \o SetToSeq({[id |-> Recs[i'].id, clause |-> c] : c \in Failed(Recs[i'])})
Fin  == /\ i = Len(Recs) /\ ndJsonSerialize(IOEnv.JUDGE_OUT, bad) /\ PrintT(<<"JUDGED", i, Len(bad)>>)
        /\ i' = i + 1 /\ bad' = bad
Next == Step \/ Fin
Spec == Init /\ [][Next]_<<i, bad>>
=============================================================================
