------------------------------- MODULE MC_Vars -------------------------------
EXTENDS Vars
VARIABLES gam, W
Gams == {Q(3, 2), R(2)}
RhoS == {Half, One, R(2)}
US == {R(-2), Q(-1, 2), Zero, One, R(3)}
PS == {Half, One, R(3)}
RhoF == {Q(1, 4), Half, One, R(2), R(4)}
UF == {R(-3), R(-2), R(-1), Q(-1, 2), Zero, Half, One, R(2), R(3)}
PF == {Q(1, 4), Half, One, R(3), R(5)}
CONSTANT Wide
Init == gam \in Gams /\ W \in (IF Wide THEN [rho : RhoF, u : UF, p : PF] ELSE [rho : RhoS, u : US, p : PS])
Spec == Init /\ [][UNCHANGED <<gam, W>>]_<<gam, W>>
InvIdentities == Identities(gam, W)
(* boundary formulas reduce to the interior state when the parameters are those of the state (C03, model level) *)
InvBcReduce == LET prm == [ptot |-> Ptot(gam, W), rttot |-> RTtot(gam, W), p |-> W.p] IN
               /\ (RSign(W.u) >= 0 => BcInsub(gam, -1, W, W, prm) /\ BcInsup(gam, -1, W, W, prm) /\ BcOutsubQtot(gam, 1, W, W, prm))
               /\ (RSign(W.u) <= 0 => BcInsub(gam, 1, W, W, prm) /\ BcOutsubQtot(gam, -1, W, W, prm))
               /\ BcOutsub(gam, 1, W, W, prm) /\ BcOutsup(W, W)
               /\ RHJump(gam, W, W, RSub(W.u, One))
(* a wall reverses the normal velocity only: mass and energy fluxes of the pair (I, sym(I)) cancel for any centred flux *)
InvSym == LET B == [rho |-> W.rho, u |-> RNeg(W.u), p |-> W.p] IN
          /\ BcSym(W, B) /\ RAdd(Massflow(W), Massflow(B)) = Zero
          /\ RAdd(RMul(Massflow(W), Htot(gam, W)), RMul(Massflow(B), Htot(gam, B))) = Zero
=============================================================================
