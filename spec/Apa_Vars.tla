------------------------------ MODULE Apa_Vars ------------------------------
(***************************************************************************)
(* C17 for EVERY state and EVERY gamma (symbolic, Apalache + Z3), where     *)
(* MC_Vars checks a grid with gamma in {3/2, 2}: the conversions of the     *)
(* Euler models are mutually inverse and the named variables satisfy the    *)
(* ideal-gas identities.  gamma = gn/gd with gn > gd > 0 (any rational      *)
(* gamma > 1); rho > 0; velocities and pressure free integers; everything   *)
(* is homogeneous, so rational states reduce to integer ones.  Divisions    *)
(* are removed by cross-multiplication with the positive quantities rho,    *)
(* gd, gn - gd.                                                             *)
(*   prim = (rho, u, v, p)      cons = (rho, mx, my, E)                     *)
(*   E = p/(gamma-1) + rho (u^2+v^2)/2      (v = 0, my = 0 is the 1D model) *)
(* Work with  E2 = 2 (gn-gd) E  (an integer):                               *)
(*   prim2cons:  E2 = 2 gd p + (gn-gd) rho (u^2+v^2)                        *)
(*   cons2prim:  2 gd rho p = rho E2 - (gn-gd)(mx^2+my^2),  rho u = mx ...  *)
(* Teeth: the 2D kinetic energy taken componentwise as in the pinned defect *)
(* D08 (enthalpy of a 2D state from the x-momentum only) is refuted.        *)
(***************************************************************************)
EXTENDS Integers
VARIABLES
  \* @type: Int;
  rho,
  \* @type: Int;
  u,
  \* @type: Int;
  v,
  \* @type: Int;
  p,
  \* @type: Int;
  gn,
  \* @type: Int;
  gd,
  \* @type: Int;
  mx,
  \* @type: Int;
  my,
  \* @type: Int;
  e2

Init == /\ rho \in Int /\ u \in Int /\ v \in Int /\ p \in Int /\ gn \in Int /\ gd \in Int
        /\ mx \in Int /\ my \in Int /\ e2 \in Int
Next == UNCHANGED <<rho, u, v, p, gn, gd, mx, my, e2>>

Adm == rho > 0 /\ gd > 0 /\ gn > gd
(* prim2cons as relations *)
IsCons(r, a, b, q, m1, m2, ee) == m1 = r * a /\ m2 = r * b /\ ee = 2 * gd * q + (gn - gd) * r * (a * a + b * b)
(* cons2prim as relations (the primitive values are the unique rationals satisfying them since rho, gd > 0) *)
IsPrim(r, m1, m2, ee, a, b, q) == r * a = m1 /\ r * b = m2 /\ 2 * gd * r * q = r * ee - (gn - gd) * (m1 * m1 + m2 * m2)

(* prim -> cons -> prim is the identity: whatever (a, b, q) cons2prim returns for the image of (u, v, p) equals (u, v, p) *)
InvPrimRoundTrip == (Adm /\ IsCons(rho, u, v, p, mx, my, e2)) => IsPrim(rho, mx, my, e2, u, v, p)
(* ... and it is the only answer: two primitive states with the same conservative image are equal (rho > 0, gd > 0) *)
InvPrimUnique == (Adm /\ IsPrim(rho, mx, my, e2, u, v, p)) => IsCons(rho, u, v, p, mx, my, e2)
(* total enthalpy: rho H = E + p, and H = a^2/(gamma-1) + (u^2+v^2)/2 with a^2 = gamma p/rho; in integers
   2 (gn-gd) rho H = e2 + 2 (gn-gd) p  =  2 gn p + (gn-gd) rho (u^2+v^2) *)
InvEnthalpy == (Adm /\ IsCons(rho, u, v, p, mx, my, e2)) => e2 + 2 * (gn - gd) * p = 2 * gn * p + (gn - gd) * rho * (u * u + v * v)
(* kinetic energy from the conservative state: 2 rho ke = mx^2 + my^2 = rho^2 (u^2 + v^2) *)
InvKinetic == (Adm /\ IsCons(rho, u, v, p, mx, my, e2)) => mx * mx + my * my = rho * rho * (u * u + v * v)
(* the pressure is positive exactly when the internal energy is:  2 gd rho p = rho e2 - (gn-gd) |m|^2 *)
InvPressureSign == (Adm /\ IsPrim(rho, mx, my, e2, u, v, p)) => ((p > 0) <=> (rho * e2 > (gn - gd) * (mx * mx + my * my)))

(* teeth: enthalpy of a 2D state computed from the x-momentum only *)
InvBadEnthalpy2D == (Adm /\ IsCons(rho, u, v, p, mx, my, e2)) => e2 + 2 * (gn - gd) * p = 2 * gn * p + (gn - gd) * rho * (u * u)
=============================================================================
