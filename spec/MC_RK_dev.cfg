SPECIFICATION SSpec
CONSTANTS
  Methods <- AllMethods
  Dts <- DtSet
  StepDeviations = {"LsrkStageTimeSquared"}
INVARIANT StageTimeIsAbscissa
INVARIANT YCoefficientOne
INVARIANT AtEnd
INVARIANT Controls
CHECK_DEADLOCK FALSE
