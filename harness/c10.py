"""C10 positivity of the first-order Riemann-flux schemes: one-step induction over all triples of exact-point states model checked
(Positivity.tla); the same triples as 3-cell periodic problems through the real solve; random strong-jump runs judged per iteration."""
import itertools, math, os, random, sys
from fractions import Fraction
import numpy as np
from . import core, fd
from .fvm_check import run_check

F = Fraction


def run_iters(model, m, flux, integ, prim, cfl, nit, bc):
    disc = fd.modeldisc.fvm(model, m, fd.recon("extrapol1"), numflux=flux, bcL={"type": bc}, bcR={"type": bc})
    f = fd.field.fdata(model, m, [np.array(p, dtype=float) for p in prim])
    f = fd.field.fdata(model, m, model.prim2cons(f.data))
    solver = getattr(fd.tnum, integ)(m, disc)
    out = []
    with np.errstate(all="ignore"):
        for _ in range(nit):
            f = solver.solve(f, cfl, stop={"maxit": 1})[-1]
            out.append([d.copy() for d in f.data])
            if not all(np.all(np.isfinite(d)) for d in f.data):
                break
    return out


def sgn(x):
    return 1 if x > 0 else (0 if x == 0 else -1)


def run_records(rnd, tier):
    recs = []
    ncase = 240 if tier == "quick" else 2400
    for c in range(ncase):
        kind = "euler" if c % 2 == 0 else "sw"
        flux = rnd.choice(["hlle", "hllc"] if kind == "euler" else ["rusanov", "hll"])
        integ = rnd.choice(["explicit", "rk2_heun", "rk3ssp"])
        bc = rnd.choice(["per", "sym"])
        n = rnd.choice([3, 10, 40, 100])
        cfl = rnd.choice([0.5, 0.45, 0.25, 0.05])
        m = fd.uniform(n, length=rnd.choice([1.0, 20.0]))
        shape = rnd.choice(["riemann", "blocks", "random", "hotlight"])

        def level(lo, hi):
            return 10.0 ** rnd.uniform(math.log10(lo), math.log10(hi))
        if shape == "riemann":
            k = rnd.randrange(1, n) if n > 1 else 0
            pick = lambda: [level(1e-3, 1.0) if rnd.random() < 0.5 else 1.0] * 1       # noqa: E731
            a, b = level(1e-3, 1.0), level(1e-3, 1.0)
            prof = lambda x, y: np.array([x] * k + [y] * (n - k))                      # noqa: E731
            r = prof(a * rnd.choice([1.0, 1e3]), b)
            p = prof(level(1e-3, 1.0) * rnd.choice([1.0, 1e3]), level(1e-3, 1.0))
            mach = prof(rnd.uniform(-3, 3), rnd.uniform(-3, 3))
        elif shape == "hotlight":
            # the largest SOUND-SPEED contrast the quantifier allows: density and pressure (depth) ratios of 200..1000 in OPPOSITE
            # directions -- a light hot slab (or half space) moving into / away from dense cold gas at rest or in motion
            nb = rnd.choice([2, 3, 3, 4])
            idx = np.minimum((np.arange(n) * nb) // max(n, 1), nb - 1)
            ratio_r, ratio_p = level(200.0, 1000.0), level(200.0, 1000.0)
            hot = [(b_ % 2) == (c // 2) % 2 for b_ in range(nb)]
            r = np.array([1.0 / ratio_r if h_ else 1.0 for h_ in hot])[idx]
            p = np.array([1.0 if h_ else 1.0 / ratio_p for h_ in hot])[idx]
            mh = rnd.choice([-1.0, 1.0]) * rnd.uniform(0.5, 3.0)
            mach = np.array([mh if h_ else rnd.choice([0.0, 0.0, rnd.uniform(-3, 3)]) for h_ in hot])[idx]
        elif shape == "blocks":
            nb = rnd.randint(2, 5)
            idx = np.minimum((np.arange(n) * nb) // max(n, 1), nb - 1)
            lv = lambda: np.array([level(1e-3, 1.0) * rnd.choice([1.0, 1e3]) for _ in range(nb)])[idx]   # noqa: E731
            r, p = lv(), lv()
            mach = np.array([rnd.uniform(-3, 3) for _ in range(nb)])[idx]
        else:
            r = np.array([level(1e-3, 1e0) * rnd.choice([1.0, 30.0, 1e3]) for _ in range(n)])
            p = np.array([level(1e-3, 1e0) * rnd.choice([1.0, 30.0, 1e3]) for _ in range(n)])
            mach = np.array([rnd.uniform(-3, 3) for _ in range(n)])
        # ratios capped at 1e3
        r = np.clip(r, np.max(r) / 1e3, None)
        p = np.clip(p, np.max(p) / 1e3, None)
        try:
            if kind == "euler":
                gam = rnd.choice([1.4, 5.0 / 3.0])
                model = fd.euler.euler1d(gamma=gam)
                u = mach * np.sqrt(gam * p / r)
                prim = [r, u, p]
            else:
                g = rnd.choice([9.81, 1.0])
                model = fd.sw.shallowwater1d(g=g)
                u = mach * np.sqrt(g * r)
                prim = [r, u]
            nit = 12 if tier == "quick" else 50
            its = run_iters(model, m, flux, integ, prim, cfl, nit, bc)
        except Exception as ex:
            recs.append(dict(kind="raised", what=str(ex)[:100], model=kind, flux=flux, integ=integ))
            continue
        srho, sp, finite = [], [], 1
        for data in its:
            if not all(np.all(np.isfinite(d)) for d in data):
                finite = 0
                break
            srho.append(sgn(float(np.min(data[0]))))
            if kind == "euler":
                pr = model.nameddata("pressure", data)
                sp.append(sgn(float(np.min(pr))))
            else:
                sp.append(1)
        recs.append(dict(kind="run", srho=srho or [1], sp=sp or [1], finite=finite, model=kind, flux=flux, integ=integ, bc=bc, n=n,
                         cfl=cfl, shape=shape))
    return recs


def triple_records(rnd, tier):
    """spec -> code: exact-point triples as 3-cell periodic problems, one explicit iteration; the new middle state is
    identified with a rational and judged / compared by TLC"""
    recs = []
    # shallow water: (c, u), h = c^2/g
    cs = [F(1, 10), F(1, 2), F(1), F(3)]
    us = [F(-3), F(-1), F(0), F(1, 2), F(2)]
    st = [(c, u) for c in cs for u in us]
    trip = list(itertools.product(st, repeat=3))
    for (g, flux) in itertools.product([F(1), F(8)], ["hll", "rusanov"]):
        for (L, M, R) in rnd.sample(trip, 40 if tier == "quick" else 600):
            for cfl in (F(1, 2), F(1, 4)):
                model = fd.sw.shallowwater1d(g=float(g))
                m = fd.uniform(3, length=3.0)
                prim = [[float(s[0] * s[0] / g) for s in (L, M, R)], [float(s[1]) for s in (L, M, R)]]
                # CFL of the specification: dt/dx = cfl / max(|u|+c) over the triple -- that is the code's global step too
                try:
                    its = run_iters(model, m, flux, "explicit", prim, float(cfl), 1, "per")
                    U = [float(its[0][0][1]), float(its[0][1][1])]
                    q = [F(x).limit_denominator(2000) if math.isfinite(x) else None for x in U]
                    ok = all(v is not None and abs(v.numerator) < 20000 and core.ulps(x, v, max(abs(x), 1e-300)) <= 64 for x, v in zip(U, q))
                    recs.append(dict(kind="triple", model="sw", flux=flux, par=core.rat(g), cfl=core.rat(cfl), ok=1 if ok else 0, spec=1,
                                     srho=sgn(U[0]) if math.isfinite(U[0]) else -2, sp=1,
                                     L=[core.rat(x) for x in L], M=[core.rat(x) for x in M], R=[core.rat(x) for x in R],
                                     unew=[core.rat(v) if ok else [1, 1] for v in q]))
                except Exception as ex:
                    recs.append(dict(kind="raised", what=str(ex)[:100], model="sw", flux=flux, integ="explicit"))
    # Euler on the small-number sub-grid
    st = [(r, u, c) for r in (F(1), F(4)) for u in (F(-2), F(0), F(1)) for c in (F(1, 2), F(1))]
    trip = list(itertools.product(st, repeat=3))
    for (gam, flux) in itertools.product([F(7, 5), F(5, 3)], ["hlle", "hllc"]):
        for (L, M, R) in rnd.sample(trip, 40 if tier == "quick" else 600):
            cfl = rnd.choice([F(1, 2), F(1, 4)])
            model = fd.euler.euler1d(gamma=float(gam))
            m = fd.uniform(3, length=3.0)
            prim = [[float(s[0]) for s in (L, M, R)], [float(s[1]) for s in (L, M, R)], [float(s[0] * s[2] * s[2] / gam) for s in (L, M, R)]]
            try:
                its = run_iters(model, m, flux, "explicit", prim, float(cfl), 1, "per")
                U = [float(its[0][k][1]) for k in range(3)]
                q = [F(x).limit_denominator(2000) if math.isfinite(x) else None for x in U]
                ok = all(v is not None and abs(v.numerator) < 20000 and core.ulps(x, v, max(abs(x), 1e-300)) <= 64 for x, v in zip(U, q))
                pr = float(model.nameddata("pressure", its[0])[1])
                recs.append(dict(kind="triple", model="euler", flux=flux, par=core.rat(gam), cfl=core.rat(cfl), ok=1 if ok else 0,
                                 srho=sgn(U[0]) if math.isfinite(U[0]) else -2, sp=sgn(pr) if math.isfinite(pr) else -2,
                                 spec=1 if ok else 0, L=[core.rat(x) for x in L], M=[core.rat(x) for x in M], R=[core.rat(x) for x in R],
                                 unew=[core.rat(v) if ok else [1, 1] for v in q]))
            except Exception as ex:
                recs.append(dict(kind="raised", what=str(ex)[:100], model="euler", flux=flux, integ="explicit"))
    return recs


def sig_of(r):
    return {"kind": r["kind"], "model": r.get("model", ""), "flux": r.get("flux", ""), "integ": r.get("integ", "explicit")}


def run(tier):
    rnd = random.Random(core.seed())
    recs = triple_records(rnd, tier) + run_records(rnd, tier)
    return run_check(
        "C10", tier,
        rule="model: ALL triples of a grid of exact-point states (shallow water: depth ratios to 900, Froude -3..2; Euler: the sub-grid "
             "of small numbers where HLLE/HLLC are exact points) x both fluxes x CFL 1/4, 1/2, periodic and wall closures: one-step "
             "induction; code: sampled triples as 3-cell problems through the real solve (new state identified with a rational), random "
             "piecewise-constant / block / random data with ratios to 1e3 and Mach to 3, N<=100, periodic and slip walls, explicit / "
             "rk2_heun / rk3ssp, CFL in (0,1/2], 12-50 iterations judged per iteration",
        assumptions=["exactness holds for ONE step only (states leave the exact family); beyond one step the evidence is trace level",
                     "TLC integers are 32 bit: the Euler grid is the small-number sub-grid, larger ratios are covered by the random runs",
                     "a triple whose new state is not a small rational (den <= 2000) within 64 ulp is judged on its float signs instead"],
        mc_runs=[("MC_Positivity", "MC_Positivity.cfg", 16)] + ([("MC_Positivity", "MC_Positivity_f.cfg", 16)] if tier == "thorough" else []),
        groups=[("Judge_Positive", recs)], prefixes=["C10"], sig_of=sig_of,
        symbolic=("Apa_Positivity", ["InvRusanov", "InvHll"],
                  "model level, beyond the grid: Apa_Positivity.tla proves with Apalache/Z3 that one forward-Euler step of the "
                  "first-order Rusanov and two-wave HLL(E) schemes keeps the depth / density positive for EVERY data set, EVERY wave-"
                  "speed estimate bounding the velocities and EVERY Courant number <= 1/2 (mass equation only: pressure positivity "
                  "and HLLC stay bounded-model + code level)"))


if __name__ == "__main__":
    sys.exit(run(os.environ.get("VERIF_TIER", "quick")))
