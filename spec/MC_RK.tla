------------------------------- MODULE MC_RK -------------------------------
EXTENDS RKStep
DtSet == {<<1, 1>>, <<1, 2>>, <<1, 4>>, <<3, 8>>}
AllMethods == {"explicit", "forwardeuler", "rk2", "rk2_heun", "rk3_heun", "rk3ssp", "rk4", "lsrk4"}
(* negative control used by the self-test: a non-SSP third-order tableau must fail SSP1, rk3_heun is order 3 not 4 *)
Rk3HeunNotSSP == ~SSP1(TabRk3Heun)
Rk3NotOrder4 == ~OrderAtLeast(TabRk3ssp, 4) /\ ~OrderAtLeast(TabRk3Heun, 4)
Rk4NotSSP == ~SSP1(TabRk4)
Controls == Rk3HeunNotSSP /\ Rk3NotOrder4 /\ Rk4NotSSP
=============================================================================
