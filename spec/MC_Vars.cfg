SPECIFICATION Spec
INVARIANT InvIdentities
INVARIANT InvBcReduce
INVARIANT InvSym
CHECK_DEADLOCK FALSE
