SPECIFICATION Spec
CONSTANTS
  MaxCells = 5
  MaxLen = 6
  DataVals = {0, 1, 2}
  Recons = {"extrapol1", "extrapol2", "k0", "k1/3", "k1", "muscl_minmod", "muscl_vanalbada", "muscl_vanleer", "muscl_superbee"}
  CheckKinds = {"cons", "shift", "stencil"}
INVARIANT InvConservation
INVARIANT InvMirror
INVARIANT InvFirstOrder
INVARIANT InvShift
INVARIANT InvConst
INVARIANT InvLinear
INVARIANT StencilOK
CHECK_DEADLOCK FALSE
