------------------------------ MODULE Apa_Mesh ------------------------------
(***************************************************************************)
(* C20, the refined mesh, for EVERY cell count, proportion and ratio        *)
(* (symbolic, Apalache + Z3), where MC_Mesh enumerates small lattices.      *)
(* refinedmesh(n, L, ratio = rn/rd, a, b):                                  *)
(*    dx1 = (a + b) L / ((a + ratio b) n)     cell size of the first zone   *)
(*    nc1 = floor(n a / (a + b)), nc2 = n - nc1                             *)
(*    faces: nc1 cells of size dx1, then nc2 equal cells up to L            *)
(* With L = 1 (lengths are homogeneous) and D = (a rd + rn b) n:            *)
(*    dx1 = (a + b) rd / D,   the second zone spans 1 - nc1 dx1.            *)
(* Clauses: the counts split the cells (0 <= nc1 <= n); both zones have     *)
(* positive cell sizes whenever they have cells (a valid partition for      *)
(* EVERY input, whole proportion or not); for a whole proportion            *)
(* (nc1 (a + b) = n a) the cell-size ratio is exactly the requested one.    *)
(* Teeth: for a proportion that is not whole the ratio is NOT the requested *)
(* one in general (InvBadRatioAlways must be refuted).                      *)
(***************************************************************************)
EXTENDS Integers
VARIABLES
  \* @type: Int;
  n,
  \* @type: Int;
  a,
  \* @type: Int;
  b,
  \* @type: Int;
  rn,
  \* @type: Int;
  rd,
  \* @type: Int;
  nc1

Init == n \in Int /\ a \in Int /\ b \in Int /\ rn \in Int /\ rd \in Int /\ nc1 \in Int
Next == UNCHANGED <<n, a, b, rn, rd, nc1>>

Adm == n >= 1 /\ a >= 1 /\ b >= 1 /\ rn >= 1 /\ rd >= 1
Floor == nc1 * (a + b) <= n * a /\ n * a < (nc1 + 1) * (a + b)       \* nc1 = floor(n a / (a + b))
nc2 == n - nc1
D == (a * rd + rn * b) * n                                            \* dx1 = (a + b) rd / D
(* span of the second zone, times D:  D - nc1 (a + b) rd *)
Span2D == D - nc1 * (a + b) * rd

InvCounts == (Adm /\ Floor) => (0 <= nc1 /\ nc1 < n /\ nc2 >= 1)
InvPositive == (Adm /\ Floor) => (D > 0 /\ Span2D > 0)               \* dx1 > 0 and the second zone has positive length
(* whole proportion: dx2 = span2 / nc2 = (rn/rd) dx1   <=>   rd Span2D = rn nc2 (a + b) rd *)
InvRatio == (Adm /\ Floor /\ nc1 * (a + b) = n * a) => rd * Span2D = rn * nc2 * (a + b) * rd
(* the first zone ends where the second begins and the second ends at L: lengths add up (by construction of Span2D);
   stated as: sum of the cell sizes = L, i.e. nc1 dx1 + nc2 dx2 = 1 with dx2 = Span2D / (D nc2) *)
InvSpans == (Adm /\ Floor) => nc1 * (a + b) * rd + Span2D = D
InvBadRatioAlways == (Adm /\ Floor) => rd * Span2D = rn * nc2 * (a + b) * rd
=============================================================================
