"""C09 maximum principle / TVD for scalar laws: Scalar.tla model checked exhaustively in exact rationals (all integer data on a
periodic mesh x models x limiters x SSP integrators x CFL); every iteration of real solves judged by TLC (exact dyadic runs:
TLC evaluates max/min/TV and validates each transition against the specification's step; random float runs: ulps tokens)."""
import itertools, os, random, sys
from fractions import Fraction
import numpy as np
from . import core, fd
from .fvm_check import run_check

F = Fraction
RECONS = ["extrapol1", "muscl_minmod", "muscl_vanalbada", "muscl_vanleer", "muscl_superbee"]
INTEGS = ["explicit", "rk2_heun", "rk3ssp"]


def iterate(model, m, recon, integ, q0, cfl, nit, mode="steps"):
    """fields after each of nit iterations of the real solve (one solve call per iteration, continuing from its result);
    mode "snapshots": ONE solve, observed through save times that fall between the steps (1.3, 2.6, ... first steps): the
    snapshots are forward steps of at most one CFL step from the trajectory, so the range and the total variation do not grow
    from one snapshot to the next either"""
    disc = fd.modeldisc.fvm(model, m, fd.recon(recon))
    solver = getattr(fd.tnum, integ)(m, disc)
    f = fd.field.fdata(model, m, [np.array(q0, dtype=float)])
    out = [f.data[0].copy()]
    if mode == "snapshots":
        with np.errstate(all="ignore"):
            dt0 = float(np.min(disc.calc_timestep(f, cfl)))
            # (the iteration bound never binds while the maximum principle holds -- the step can only grow; it keeps a tree on
            # which the data blow up, and the step collapses, from looping for ever inside flowdyn)
            res = solver.solve(f, cfl, [1.3 * k * dt0 for k in range(1, nit + 1)], stop={"maxit": 3 * nit + 10})
        return out + [r.data[0].copy() for r in res]
    with np.errstate(all="ignore"):
        for _ in range(nit):
            f = solver.solve(f, cfl, stop={"maxit": 1})[-1]
            out.append(f.data[0].copy())
    return out


def tv(q):
    q = [F(float(x)) for x in q]
    n = len(q)
    return sum((abs(q[(i + 1) % n] - q[i]) for i in range(n)), F(0))


def exact_records(rnd, tier):
    recs = []
    vals = [-2.0, -1.0, 0.0, 1.0, 2.0]
    ns = [4, 5] if tier == "quick" else [4, 5, 6]
    per_cfg = 12 if tier == "quick" else 120
    for n in ns:
        alld = list(itertools.product(vals, repeat=n))
        for (mk, a) in (("conv", 1.0), ("conv", -1.0), ("burgers", 0.0)):
            for recon in ["extrapol1", "muscl_minmod", "muscl_superbee"]:
                for integ in ["explicit", "rk2_heun"]:
                    for cfl in ([0.5, 0.25] + ([1.0] if recon == "extrapol1" else [])):
                        sample = rnd.sample(alld, per_cfg)
                        # the ties uL + uR = 0 and steps are where the scheme can fail: always include them
                        sample += [tuple([1.0] * (n // 2) + [-1.0] * (n - n // 2)), tuple([2.0, -2.0] * (n // 2) + [0.0] * (n % 2)),
                                   tuple([-1.0] * (n // 2) + [1.0] * (n - n // 2))]
                        for d in sample:
                            if mk == "burgers" and all(x == 0 for x in d):
                                continue
                            model = fd.conv.model(a) if mk == "conv" else fd.burgers.model()
                            # the origin of a uniform mesh is free: exact (dyadic) origins on both sides of zero, half a cell included
                            m = fd.uniform(n, length=float(n), x0=[0.0, -0.5, 2.0, -1.5][(len(recs) // 7) % 4])
                            try:
                                fields = iterate(model, m, recon, integ, d, cfl, 2)
                            except Exception as ex:
                                recs.append(dict(kind="raised", what=str(ex)[:100], model=mk, recon=recon, integ=integ))
                                continue
                            if not all(np.all(np.isfinite(x)) for x in fields):
                                recs.append(dict(kind="tok", dmax=[core.ULP_CAP], dmin=[0], dtv=[0], finite=0, model=mk, recon=recon,
                                                 integ=integ, cfl=cfl, n=n, data=list(d)))
                                continue
                            if not all(F(float(v)).denominator <= 256 and abs(F(float(v)).numerator) <= 2 ** 12 for x in fields for v in x):
                                recs.append(tok_of(fields, mk, recon, integ, cfl, n, list(d)))   # exact values too long for TLC's 32-bit integers
                                continue
                            # TLC recomputes the step from each observed field (trace validation) while the numbers stay small
                            small = all(F(float(v)).denominator <= 64 for x in fields[:-1] for v in x) and \
                                (mk == "conv" or (integ == "explicit" and all(F(float(v)).denominator <= 8 for x in fields[:-1] for v in x)))
                            recs.append(dict(kind="exact", model=mk, a=core.rat(F(a)), dx=[1, 1], cfl=core.rat(F(cfl)), recon=recon,
                                             integ=integ, fields=[[core.rat(F(float(v))) for v in x] for x in fields],
                                             specable=1 if small else 0, n=n))
    return recs


def tok_of(fields, mk, recon, integ, cfl, n, data, against_initial=False):
    """against_initial: the fields are snapshots, each a forward step from SOME state of the trajectory (not from the previous
    snapshot): each is compared with the initial field (range within the initial range, variation not above the initial one)"""
    dmax, dmin, dtv = [], [], []
    finite = 1
    for k in range(len(fields) - 1):
        a, b = (fields[0] if against_initial else fields[k]), fields[k + 1]
        if not (np.all(np.isfinite(a)) and np.all(np.isfinite(b))):
            finite = 0
            break
        sc = float(np.max(np.abs(a))) or 1.0
        dmax.append(core.ulps(max(float(np.max(b)) - float(np.max(a)), 0.0), 0.0, sc))
        dmin.append(core.ulps(max(float(np.min(a)) - float(np.min(b)), 0.0), 0.0, sc))
        ta, tb = tv(a), tv(b)
        dtv.append(core.ulps(max(tb - ta, F(0)), 0, ta + F(sc)))
    return dict(kind="tok", dmax=dmax or [0], dmin=dmin or [0], dtv=dtv or [0], finite=finite, model=mk, recon=recon, integ=integ,
                cfl=cfl, n=n, data=data)


def tok_records(rnd, tier):
    recs = []
    ncase = 120 if tier == "quick" else 2000
    for c in range(ncase):
        mk = rnd.choice(["conv", "conv", "burgers"])
        recon = rnd.choice(RECONS)
        integ = rnd.choice(INTEGS)
        n = rnd.choice([4, 7, 20, 64, 200])
        firstorder = recon == "extrapol1"
        if firstorder and mk == "conv" and c % 2 == 0:      # first order: any mesh, CFL up to 1
            w = np.array([10.0 ** rnd.uniform(-1, 0.5) for _ in range(n)])
            m = fd.mesh_from_faces(np.concatenate([[0.0], np.cumsum(w)]))
            cfl = rnd.choice([1.0, 0.9, 0.5, 0.1])
        else:
            L_ = rnd.choice([1.0, 10.0])
            if c % 4 == 3:          # observed through snapshots of one solve, on a domain of any extent (steps of 1e-13 .. 1e7)
                L_ = rnd.choice([1.0, 1e-11, 3e-12, 1e9])
            m = fd.uniform(n, length=L_, x0=rnd.choice([0.0, 0.0, -0.5 * L_ / n, -1.5 * L_ / n, -L_ / 2, 0.3, -7.3]))
            vol_ = np.asarray(m.vol(), dtype=float)
            if float(np.max(vol_) - np.min(vol_)) > 1e-9 * float(np.mean(vol_)):
                # an origin whose own rounding unit is not negligible against the cell size (0.3 + k * 5e-13) does not give a
                # UNIFORM mesh in floating point (cell sizes differ by 1e-4 .. 1e-2 relative): the property is about uniform meshes
                m = fd.uniform(n, length=L_, x0=-0.5 * L_ / n)
            cfl = rnd.choice([0.5, 0.45, 0.3, 0.05])
        kind = rnd.choice(["rand", "step", "saw", "sign", "ints"])
        if kind == "rand":
            d = [rnd.uniform(-2, 2) for _ in range(n)]
        elif kind == "step":
            k = rnd.randrange(1, n)
            d = [rnd.choice([1.0, 2.5])] * k + [rnd.choice([-1.0, 0.0, 0.5])] * (n - k)
        elif kind == "saw":
            d = [(-1.0) ** i * rnd.uniform(0.5, 2) for i in range(n)]
        elif kind == "sign":
            d = [math_sin(i, n) for i in range(n)]
        else:
            d = [float(rnd.randint(-2, 2)) for _ in range(n)]
        if mk == "burgers" and all(x == 0 for x in d):
            d[0] = 1.0
        model = fd.conv.model(rnd.choice([1.0, -1.0, 3.0, -0.2])) if mk == "conv" else fd.burgers.model()
        nit = 8 if tier == "quick" else 30
        try:
            snaps = c % 4 == 3 and not (firstorder and mk == "conv" and c % 2 == 0)
            fields = iterate(model, m, recon, integ, d, cfl, nit, mode="snapshots" if snaps else "steps")
        except Exception as ex:
            recs.append(dict(kind="raised", what=str(ex)[:100], model=mk, recon=recon, integ=integ))
            continue
        recs.append(tok_of(fields, mk, recon, integ, cfl, n, kind, against_initial=snaps))
    return recs


def math_sin(i, n):
    import math
    return math.sin(2 * math.pi * i / n) + (0.0 if i % 3 else 0.2)


def sig_of(r):
    return {"kind": r["kind"], "model": r.get("model", ""), "recon": r.get("recon", ""), "integ": r.get("integ", "")}


def run(tier):
    rnd = random.Random(core.seed())
    recs = exact_records(rnd, tier) + tok_records(rnd, tier)
    return run_check(
        "C09", tier,
        rule="model: ALL data in {-1,0,1,2}^4 (quick) / {-2..2}^4, {-1..2}^5 (thorough) x convection(+-1), Burgers x first order and "
             "MUSCL(4 limiters) x explicit, rk2_heun, rk3ssp x CFL 1/2 (1 for first order), exact rationals; code: the same integer "
             "data sets through the real solve (dyadic regime: exact fields, TLC evaluates max/min/TV and validates each transition "
             "against Scalar.tla), random/step/sawtooth/sign-changing data on N<=200, CFL in (0,1/2], 8-30 iterations (ulps tokens)",
        assumptions=["admissible data exclude the identically zero Burgers field (no finite CFL step exists for it)",
                     "TLC integers are 32 bit: exact Burgers runs use <= 2 Euler stages and piecewise-linear limiters; the smooth "
                     "limiters and rk3ssp are covered exactly for convection and by tokens elsewhere",
                     "total variation is the periodic one"],
        mc_runs=[("MC_Scalar", "MC_Scalar.cfg", 16)] if tier == "quick" else [("MC_Scalar", "MC_Scalar_f.cfg", 16), ("MC_Scalar", "MC_Scalar_f5.cfg", 16)],
        groups=[("Judge_Scalar", recs)], prefixes=["C09"], sig_of=sig_of,
        symbolic=("Apa_Scalar", ["InvFirstOrder", "InvMuscl", "InvHarten"],
                  "model level, beyond the grid: Apa_Scalar.tla proves with Apalache/Z3, for ALL data, ALL Courant numbers <= 1/2 "
                  "(<= 1 first order) and ANY limiter value inside the region of C12, that a forward-Euler step of linear "
                  "convection stays between the two upwind neighbours (Harten coefficient in [0,1]); SSP stages are convex "
                  "combinations of such steps (RK.tla); Burgers stays bounded-model + code level"))


if __name__ == "__main__":
    sys.exit(run(os.environ.get("VERIF_TIER", "quick")))
