----------------------------- MODULE Apa_Fluxes -----------------------------
(***************************************************************************)
(* C02 for ALL states, not exact-point grids (symbolic, Apalache + Z3):     *)
(* the ALGEBRA shared by the numerical fluxes of Fluxes.tla, with the       *)
(* physical fluxes, conserved quantities and characteristic speeds left     *)
(* FREE (so the result holds for Euler, shallow water and any other system  *)
(* plugged into the same formulas, whatever gamma or g):                    *)
(*                                                                         *)
(*  two-wave HLL form  F = (sR fL - sL fR + sL sR (qR - qL)) / (sR - sL)    *)
(*     with sL = min(0, l1, l2) and sR = max(0, r1, r2)  (SwHll, EuHlle)    *)
(*  Rusanov form       F = (fL + fR)/2 - s (qR - qL)/2,  s = max(m1, m2)    *)
(*  centered form      F = (fL + fR)/2                                      *)
(*  convection upwind  F = a (qL + qR)/2 - |a| (qR - qL)/2                  *)
(*  Burgers upwind     on the sign of uL + uR, the tie to the left state    *)
(*                                                                         *)
(* Clauses: consistency F(W, W) = f(W); mirror image (swap the states,      *)
(* negate the speeds: the flux of a reflection-even quantity changes sign,  *)
(* that of an odd quantity is unchanged); upwinding (no left-going wave:    *)
(* F = fL; no right-going wave: F = fR).  Fractions are cross-multiplied,   *)
(* halves doubled; rational data reduce to integers by homogeneity.         *)
(* Teeth: InvBadHll (dissipation on sR^2) and InvBadBurgers (upwinding on   *)
(* the sign of uL alone) must be refuted.                                   *)
(***************************************************************************)
EXTENDS Integers
VARIABLES
  \* @type: Int;
  fL,
  \* @type: Int;
  fR,
  \* @type: Int;
  qL,
  \* @type: Int;
  qR,
  \* @type: Int;
  l1,
  \* @type: Int;
  l2,
  \* @type: Int;
  r1,
  \* @type: Int;
  r2,
  \* @type: Int;
  a

Abs(x) == IF x < 0 THEN -x ELSE x
Min(x, y) == IF x <= y THEN x ELSE y
Max(x, y) == IF x >= y THEN x ELSE y

Init == /\ fL \in Int /\ fR \in Int /\ qL \in Int /\ qR \in Int
        /\ l1 \in Int /\ l2 \in Int /\ r1 \in Int /\ r2 \in Int /\ a \in Int
Next == UNCHANGED <<fL, fR, qL, qR, l1, l2, r1, r2, a>>

(* ---- two-wave form: numerator and denominator *)
SL(x, y) == Min(0, Min(x, y))
SR(x, y) == Max(0, Max(x, y))
HllN(sl, sr, gL, gR, pL, pR) == sr * gL - sl * gR + sl * sr * (pR - pL)
HllD(sl, sr) == sr - sl
sL == SL(l1, l2)
sR == SR(r1, r2)
Waves == l1 <= r1 /\ l2 <= r2 /\ sR - sL > 0          \* slow and fast speed of each state; the code divides by sR - sL

InvHllConsistent == (Waves /\ qL = qR /\ fL = fR) => HllN(sL, sR, fL, fR, qL, qR) = fL * HllD(sL, sR)
InvHllUpwind == Waves => /\ (l1 >= 0 /\ l2 >= 0) => HllN(sL, sR, fL, fR, qL, qR) = fL * HllD(sL, sR)
                         /\ (r1 <= 0 /\ r2 <= 0) => HllN(sL, sR, fL, fR, qL, qR) = fR * HllD(sL, sR)
(* mirror image: the left state is the old right one, speeds lambda -> -lambda (slow <-> fast) *)
mL == SL(-r2, -r1)
mR == SR(-l2, -l1)
InvHllMirror == Waves =>
   /\ HllD(mL, mR) = HllD(sL, sR)
   /\ HllN(mL, mR, -fR, -fL, qR, qL) = -HllN(sL, sR, fL, fR, qL, qR)       \* even quantity: q kept, f negated
   /\ HllN(mL, mR, fR, fL, -qR, -qL) = HllN(sL, sR, fL, fR, qL, qR)        \* odd quantity: q negated, f kept
(* ---- Rusanov (doubled) with s = max of the two spectral radii r1, r2 >= 0 *)
Rus2(s, gL, gR, pL, pR) == gL + gR - s * (pR - pL)
InvRusanov == /\ (qL = qR /\ fL = fR) => Rus2(Max(r1, r2), fL, fR, qL, qR) = 2 * fL
              /\ Rus2(Max(r2, r1), -fR, -fL, qR, qL) = -Rus2(Max(r1, r2), fL, fR, qL, qR)
              /\ Rus2(Max(r2, r1), fR, fL, -qR, -qL) = Rus2(Max(r1, r2), fL, fR, qL, qR)
(* ---- centered (doubled) *)
InvCentered == /\ (fL = fR) => fL + fR = 2 * fL
               /\ (-fR) + (-fL) = -(fL + fR)
(* ---- convection (doubled): speed a, scalar even *)
Conv2(c, pL, pR) == c * (pL + pR) - Abs(c) * (pR - pL)
InvConvection == /\ Conv2(a, qL, qL) = 2 * a * qL
                 /\ (a >= 0 => Conv2(a, qL, qR) = 2 * a * qL) /\ (a <= 0 => Conv2(a, qL, qR) = 2 * a * qR)
                 /\ Conv2(-a, qR, qL) = -Conv2(a, qL, qR)
(* ---- Burgers (doubled): velocity odd, flux u^2/2 even *)
Burg2(uL, uR) == IF uL + uR > 0 THEN uL * uL ELSE IF uL + uR < 0 THEN uR * uR ELSE uL * uL
InvBurgers == /\ Burg2(qL, qL) = qL * qL
              /\ ((qL > 0 /\ qR > 0) => Burg2(qL, qR) = qL * qL) /\ ((qL < 0 /\ qR < 0) => Burg2(qL, qR) = qR * qR)
              /\ Burg2(-qR, -qL) = Burg2(qL, qR)

(* ---- teeth: a dissipation term built on sR^2 instead of sL sR breaks upwinding, and a Burgers flux upwinded on the sign
   of uL alone is not mirror symmetric *)
BadHllN(sl, sr, gL, gR, pL, pR) == sr * gL - sl * gR + sr * sr * (pR - pL)
InvBadHll == (Waves /\ l1 >= 0 /\ l2 >= 0) => BadHllN(sL, sR, fL, fR, qL, qR) = fL * HllD(sL, sR)
BadBurg2(uL, uR) == IF uL > 0 THEN uL * uL ELSE uR * uR
InvBadBurgers == BadBurg2(-qR, -qL) = BadBurg2(qL, qR)
=============================================================================
