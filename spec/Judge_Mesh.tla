----------------------------- MODULE Judge_Mesh -----------------------------
(***************************************************************************)
(* C20 judge.  1D records carry exact float-comparison tokens (and exact    *)
(* rational faces when the parameters are dyadic); 2D records carry the     *)
(* integer tables of the real mesh2d and the face<->cell incidence OBSERVED *)
(* from the real first-order 2D reconstruction run on cell-index data.      *)
(***************************************************************************)
EXTENDS Mesh, Json, IOUtils, SequencesExt
Tol == 8      \* ulps allowed on positions computed by linspace / morphing

Recs == ndJsonDeserialize(IOEnv.JUDGE_IN)
VARIABLES i, bad
SetOf(sq) == {sq[k] : k \in 1..Len(sq)}

Failed1(r) ==
  {c \in {"C20_face_count", "C20_increasing", "C20_span", "C20_midpoints", "C20_volumes_positive", "C20_volume_sum",
          "C20_length", "C20_average_const", "C20_refined_zones", "C20_refined_ratio", "DRIFT_faces"} :
     ~ CASE c = "C20_face_count" -> r.nfaces = r.ncell + 1 /\ r.ncells_attr = r.ncell
         [] c = "C20_increasing" -> r.inc = 1
         [] c = "C20_span" -> r.lo <= Tol /\ r.hi <= Tol
         [] c = "C20_midpoints" -> r.xc <= 2
         [] c = "C20_volumes_positive" -> r.volpos = 1
         [] c = "C20_volume_sum" -> r.volsum <= 4 * r.ncell + Tol
         [] c = "C20_length" -> r.len <= Tol
         [] c = "C20_average_const" -> r.avg <= Tol
         [] c = "C20_refined_zones" -> r.kind = "refined" => r.z1 <= 64 /\ r.z2 <= 64
         [] c = "C20_refined_ratio" -> (r.kind = "refined" /\ r.whole = 1) => r.ratio <= 64
         [] c = "DRIFT_faces" ->
              (r.exact = 1) =>
                 LET got == VecFrom(r.xf) IN
                 CASE r.kind = "uni" -> got = Uni(r.ncell, FromPair(r.L), FromPair(r.x0))
                   [] r.kind = "refined" -> got = Refined(r.ncell, FromPair(r.L), FromPair(r.rr), r.a, r.b)
                   [] OTHER -> TRUE}

Failed2(r) ==
  LET nx == r.nx ny == r.ny
      nf == r.nbfaces
      T == [t \in Tags |-> SetOf(r.tables[t])]
      O == [t \in Tags |-> r.orient[t]]
      Nm == [t \in Tags |-> <<r.normals[t][1], r.normals[t][2]>>]
      Inc == [f \in 0..(nf - 1) |-> <<r.incL[f + 1], r.incR[f + 1]>>]
      bnd == {f \in 0..(nf - 1) : -1 \in {Inc[f][1], Inc[f][2]}}
      inRange == \A t \in Tags : T[t] \subseteq 0..(nf - 1)     \* total verdicts: a table that names a face the mesh does not have
  IN {c \in {"C20_2d_counts", "C20_2d_disjoint", "C20_2d_cover", "C20_2d_orientation", "C20_2d_normals", "C20_2d_volume",
             "C20_2d_centers", "DRIFT_tables"} :
        ~ CASE c = "C20_2d_counts" -> r.ncell = nx * ny /\ nf = (nx + 1) * ny + nx * (ny + 1) /\ r.nvol = nx * ny
            [] c = "C20_2d_disjoint" -> Disjoint(T)
            [] c = "C20_2d_cover" -> inRange /\ Covers(T, bnd)
            [] c = "C20_2d_orientation" -> inRange /\ OrientationOK(T, O, Inc)
            [] c = "C20_2d_normals" -> r.normunit = 1 /\ inRange /\ NormalOK(T, O, Nm, nx, ny)
            [] c = "C20_2d_volume" -> r.vol <= Tol
            [] c = "C20_2d_centers" -> r.centers <= Tol
            [] c = "DRIFT_tables" -> /\ \A t \in Tags : T[t] = IoBc(nx, ny, t)
                                     /\ \A f \in 0..(nf - 1) : Inc[f] = Incidence(nx, ny, f)}

Failed(r) == IF r.kind = "raised" THEN {"C20_raised"} ELSE IF r.dim = 1 THEN Failed1(r) ELSE Failed2(r)
Init == i = 0 /\ bad = <<>>
Step == /\ i < Len(Recs) /\ i' = i + 1
        /\ bad' = bad \o SetToSeq({[id |-> Recs[i'].id, clause |-> c] : c \in Failed(Recs[i'])})
Fin  == /\ i = Len(Recs) /\ ndJsonSerialize(IOEnv.JUDGE_OUT, bad) /\ PrintT(<<"JUDGED", i, Len(bad)>>)
        /\ i' = i + 1 /\ bad' = bad
Next == Step \/ Fin
Spec == Init /\ [][Next]_<<i, bad>>
=============================================================================
