------------------------------- MODULE Apa_RH -------------------------------
(***************************************************************************)
(* C16, 'outsub_rh', for EVERY interior state, EVERY imposed pressure and   *)
(* EVERY gamma (symbolic, Apalache + Z3): the state returned by             *)
(* euler1d.bc_outsub_rh satisfies the Rankine-Hugoniot relations across a   *)
(* shock of speed Ws, where MC_Vars checks them on a grid of states.        *)
(*                                                                         *)
(* The code:  Ms2 = 1 + (p1/p0 - 1)(g+1)/(2g)                               *)
(*            r   = (g+1) Ms2 / (2 + (g-1) Ms2)          (density ratio)    *)
(*            Ws  = u0 - dir sqrt(g p0/rho0 Ms2)                            *)
(*            rho1 = rho0 r,  u1 = Ws + (u0 - Ws)/r,  p1 imposed            *)
(* In the frame of the shock, w = u - Ws:  w1 = w0 / r and                  *)
(* J = rho0 w0^2 = g p0 Ms2 (this is all the square root is used for).      *)
(*   mass      rho0 w0 = rho1 w1                     (by construction)      *)
(*   momentum  p0 + rho0 w0^2 = p1 + rho1 w1^2   <=> J (1 - 1/r) = p1 - p0  *)
(*   energy    h0 + w0^2/2 = h1 + w1^2/2, h = g/(g-1) p/rho, times rho0:    *)
(*             G p0 + J/2 = G p1 / r + J / (2 r^2),  G = g/(g-1)            *)
(* Integers: g = gn/gd; Ms2 = Mn/Md, r = Rn/Rd, J = Mn/(2 gd); every        *)
(* relation cross-multiplied.  Tooth: InvBadMomentum with (g-1)/(2g) in Ms2.*)
(***************************************************************************)
EXTENDS Integers
VARIABLES
  \* @type: Int;
  p0,
  \* @type: Int;
  p1,
  \* @type: Int;
  gn,
  \* @type: Int;
  gd

Init == p0 \in Int /\ p1 \in Int /\ gn \in Int /\ gd \in Int
Next == UNCHANGED <<p0, p1, gn, gd>>

Adm == p0 > 0 /\ p1 > 0 /\ gd > 0 /\ gn > gd
Mn == 2 * gn * p0 + (p1 - p0) * (gn + gd)
Md == 2 * gn * p0
Rn == (gn + gd) * Mn
Rd == 2 * gd * Md + (gn - gd) * Mn

(* the shock Mach number and the density ratio are positive for every admissible input: the square root and the division exist *)
InvDefined == Adm => (Mn > 0 /\ Md > 0 /\ Rn > 0 /\ Rd > 0)
InvMomentum == Adm => (Mn * (Rn - Rd) = 2 * gd * Rn * (p1 - p0))
InvEnergy == Adm => ((4 * gd * gn * p0 + (gn - gd) * Mn) * Rn * Rn = 4 * gd * gn * p1 * Rd * Rn + (gn - gd) * Mn * Rd * Rd)
(* compression (p1 > p0) gives a shock: Ms2 > 1 and a density ratio > 1 bounded by (g+1)/(g-1); p1 = p0 gives the interior state *)
InvCompression == (Adm /\ p1 > p0) => (Mn > Md /\ Rn > Rd /\ Rn * (gn - gd) < Rd * (gn + gd))
InvIdentity == (Adm /\ p1 = p0) => (Mn = Md /\ Rn = Rd)

MnBad == 2 * gn * p0 + (p1 - p0) * (gn - gd)
InvBadMomentum == Adm => (MnBad * ((gn + gd) * MnBad - (2 * gd * Md + (gn - gd) * MnBad)) = 2 * gd * (gn + gd) * MnBad * (p1 - p0))
=============================================================================
