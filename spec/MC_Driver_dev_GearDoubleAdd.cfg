SPECIFICATION Spec
CONSTANTS
  Scripts <- ScriptsC07Quick
  Kinds = {"onestep", "implicit", "gear"}
  DtProfiles = {"c4", "var"}
  T0s = {0, 4}
  Deviations = {"GearDoubleAdd"}
INVARIANT InvC07_advance
INVARIANT InvC07_nit
INVARIANT InvC07_times
INVARIANT InvC07_ontraj
INVARIANT InvC07_finite
INVARIANT InvC08_pure
INVARIANT InvC08_fresh
INVARIANT InvC08_counters
PROPERTY MainAdvancesByDt
PROPERTY NitCountsMainSteps
PROPERTY CallerFieldUntouched
PROPERTY SaveIndexMonotone
CHECK_DEADLOCK FALSE
