---------------------------- MODULE Trace_Driver ----------------------------
(***************************************************************************)
(* Trace validation: event logs recorded from the REAL solve()/restart()    *)
(* (TimeStep seam, every top-level step() call, every call/return) are      *)
(* checked to be behaviours of Driver.tla.  Observable actions consume one  *)
(* event and bind its logged fields; Mon, Skip, PreSave, CheckEnd and the   *)
(* "no snapshot due" branch of SideStep leave no event and are taken        *)
(* silently (they are finitely many between two events).  The unlogged      *)
(* variables (pc, isave, counters, hidden state) are inferred by TLC.       *)
(*                                                                         *)
(* Data are bound through `idmap`: the harness numbers distinct bit         *)
(* patterns; the specification's data TERM reached for an id must be the    *)
(* same every time that id shows up, so "which state was stepped, from      *)
(* where, by how much" is validated and not only the times.                 *)
(*                                                                         *)
(* Many traces are validated in one TLC run: one behaviour per trace id.    *)
(***************************************************************************)
EXTENDS Driver, Json, IOUtils, CSV

Traces == ndJsonDeserialize(IOEnv.TRACE_FILE)
OutFile == IOEnv.TRACE_OUT

SetOfSeq(sq) == {sq[k] : k \in 1..Len(sq)}
CallOf(e) == [op |-> e.op, from |-> e.from, tsave |-> e.tsave, tot |-> e.tot, maxit |-> e.maxit,
              freqs |-> SetOfSeq(e.freqs), cfl |-> e.cfl, dtl |-> e.dtl]
ScriptOf(tr) == LET idx == SelectSeq([k \in 1..Len(tr.events) |-> k], LAMBDA k : tr.events[k].e = "call")
                IN  [j \in 1..Len(idx) |-> CallOf(tr.events[idx[j]])]

(* the constants of Driver only bound its Init; here every behaviour is pinned to one recorded trace, so they are
   instantiated by sets that merely type-check (computing them from the traces made Init quadratic) *)
AnyScripts == Seq([op : STRING, from : STRING, tsave : Seq(Int), tot : Int, maxit : Int, freqs : SUBSET Int, cfl : Int, dtl : BOOLEAN])
AnyKinds == {"onestep", "implicit", "gear"}
AnyProfiles == {"c4", "c3", "var"}
AnyT0s == -64..4096

VARIABLES tid,    \* which trace this behaviour validates
          l,      \* next event to consume
          idmap   \* code data id -> specification data term

tvars == <<vars, tid, l, idmap>>

Ev == Traces[tid].events
IsEvent(name) == l <= Len(Ev) /\ Ev[l].e = name /\ l' = l + 1

Bind(m, id, term) == IF id \in DOMAIN m THEN m ELSE m @@ (id :> term)
Agrees(m, id, term) == id \in DOMAIN m => m[id] = term
Known(m, id, term)  == id \in DOMAIN m /\ m[id] = term     \* a state that is stepped or presented was seen before

TraceInit ==
  /\ tid \in 1..Len(Traces)
  /\ kind = Traces[tid].kind /\ prof = Traces[tid].prof
  /\ script = ScriptOf(Traces[tid])
  /\ f0 = [t |-> Traces[tid].t0, it |-> None, d |-> <<>>]
  /\ Init
  /\ l = 1
  /\ idmap = (Traces[tid].id0 :> <<>>)

TrCall == /\ IsEvent("call") /\ Call
          /\ Agrees(idmap, Ev[l].id, arg'.d) /\ arg'.t = Ev[l].t /\ arg'.it = Ev[l].it
          /\ idmap' = Bind(idmap, Ev[l].id, arg'.d) /\ UNCHANGED tid

TrIter == /\ IsEvent("ts") /\ IterBegin
          /\ qn.t = Ev[l].t /\ dt' = Ev[l].dt
          /\ Known(idmap, Ev[l].id, qn.d)
          /\ UNCHANGED <<tid, idmap>>

TrSide == /\ IsEvent("step") /\ SideStep /\ Len(results') = Len(results) + 1
          /\ LET r == results'[Len(results')] IN
             /\ Ev[l].t = qn.t /\ Ev[l].h = call.tsave[isave] - qn.t /\ Ev[l].t2 = r.t
             /\ Known(idmap, Ev[l].id, qn.d) /\ Agrees(idmap, Ev[l].id2, r.d)
             /\ idmap' = Bind(idmap, Ev[l].id2, r.d)
          /\ UNCHANGED tid

TrMain == /\ IsEvent("step") /\ MainStep
          /\ Ev[l].t = qn.t /\ Ev[l].h = dt /\ Ev[l].t2 = qn'.t
          /\ Known(idmap, Ev[l].id, qn.d) /\ Agrees(idmap, Ev[l].id2, qn'.d)
          /\ idmap' = Bind(idmap, Ev[l].id2, qn'.d)
          /\ UNCHANGED tid

TrRet == /\ IsEvent("ret") /\ Return
         /\ nit = Ev[l].nit /\ itstart + nit = Ev[l].totnit
         /\ Len(results) = Len(Ev[l].res)
         /\ \A k \in 1..Len(results) :
               /\ results[k].t = Ev[l].res[k].t /\ results[k].it = Ev[l].res[k].it
               /\ Known(idmap, Ev[l].res[k].id, results[k].d)
         /\ [k \in 1..Len(mon) |-> <<mon[k].f, mon[k].it, mon[k].t>>] =
            [k \in 1..Len(Ev[l].mon) |-> <<Ev[l].mon[k].f, Ev[l].mon[k].it, Ev[l].mon[k].t>>]
         /\ UNCHANGED <<tid, idmap>>

(* solve_legacy: one LegacyIter per TimeStep event, together with the step event that follows it when a step was taken *)
TrLCall == /\ IsEvent("call") /\ LegacyCall
           /\ Agrees(idmap, Ev[l].id, arg'.d) /\ arg'.t = Ev[l].t /\ arg'.it = Ev[l].it
           /\ idmap' = Bind(idmap, Ev[l].id, arg'.d) /\ UNCHANGED tid

TrLIter == /\ l <= Len(Ev) /\ Ev[l].e = "ts" /\ LegacyIter
           /\ qn.t = Ev[l].t /\ Known(idmap, Ev[l].id, qn.d) /\ Ev[l].dt = traj'[Len(traj')].dt
           /\ IF dt' > 0
              THEN /\ l + 1 <= Len(Ev) /\ Ev[l + 1].e = "step"
                   /\ Ev[l + 1].t = qn.t /\ Ev[l + 1].h = dt' /\ Ev[l + 1].t2 = qn'.t
                   /\ Known(idmap, Ev[l + 1].id, qn.d) /\ Agrees(idmap, Ev[l + 1].id2, qn'.d)
                   /\ idmap' = Bind(idmap, Ev[l + 1].id2, qn'.d) /\ l' = l + 2
              ELSE /\ (l + 1 > Len(Ev) \/ Ev[l + 1].e # "step") /\ l' = l + 1 /\ UNCHANGED idmap
           /\ UNCHANGED tid

TrLRet == /\ IsEvent("ret") /\ LegacyReturn
          /\ nit = Ev[l].nit /\ itstart + nit = Ev[l].totnit
          /\ Len(results) = Len(Ev[l].res) /\ Ev[l].mon = <<>>
          /\ \A k \in 1..Len(results) :
                /\ results[k].t = Ev[l].res[k].t /\ results[k].it = Ev[l].res[k].it
                /\ Known(idmap, Ev[l].res[k].id, results[k].d)
          /\ UNCHANGED <<tid, idmap>>

Silent == /\ \/ Mon \/ Skip \/ PreSave \/ CheckEnd
             \/ (SideStep /\ results' = results)
          /\ UNCHANGED <<tid, l, idmap>>

(* a fully consumed trace reports itself; the harness counts the ids that did not *)
Accept == /\ l = Len(Ev) + 1 /\ pc = "idle"
          /\ CSVWrite("%1$s", <<Traces[tid].id>>, OutFile)
          /\ l' = l + 1 /\ UNCHANGED <<vars, tid, idmap>>

TraceNext == TrCall \/ TrIter \/ TrSide \/ TrMain \/ TrRet \/ Silent \/ Accept \/ TrLCall \/ TrLIter \/ TrLRet
TraceSpec == TraceInit /\ [][TraceNext]_tvars
=============================================================================
