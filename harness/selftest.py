"""setup / self-test: tools present, every module parses, the specification has teeth (each named deviation of
Driver.tla violates the invariant it should), and the binding is real (corrupted recorded traces are rejected)."""
import copy, glob, os, sys
from . import core


def run():
    ok = True

    def say(flag, msg):
        nonlocal ok
        print(("ok   " if flag else "FAIL ") + msg)
        ok = ok and flag

    # 1. every module parses
    mods = sorted(os.path.basename(p)[:-4] for p in glob.glob(os.path.join(core.SPEC, "*.tla")))
    for m in mods:
        good, out = core.sany(m)
        say(good, "sany " + m)
        if not good:
            print(out[-800:])
    # 2. teeth: each deviation of Driver.tla breaks the invariants that state the property it names
    expect = {"SaveOnePerIter": "InvC07_times", "NoPreSave": "InvC07_times", "GearDoubleAdd": "InvC07_advance",
              "SideStepWritesHidden": "InvC08_pure", "HiddenSurvivesSolve": "InvC08_fresh", "StaleItTag": "InvC08_split",
              "StaleCfl": "InvC08_pure", "StickyDirective": "InvC08_pure",
              "ZeroTottimeIgnored": "InvC07_nit"}
    for dev, inv in expect.items():
        cfg = "MC_Driver_dev_%s.cfg" % dev
        if not os.path.exists(os.path.join(core.SPEC, cfg)):
            continue
        r = core.tlc("MC_Driver", cfg, workers=4, cont=True, timeout=600)
        say(inv in r.violated, "deviation %s violates %s (%d violations)" % (dev, inv, len(r.violated)))
    # 2b. teeth of the other models: every named deviation (a defect of the pinned code, or a seeded change, written into the
    # specification as an alternative action) is rejected by the invariants of its module
    for path in sorted(glob.glob(os.path.join(core.SPEC, "MC_*_dev*.cfg"))):
        cfg = os.path.basename(path)
        if cfg.startswith("MC_Driver_dev_"):
            continue
        module = cfg.split("_dev")[0]
        r = core.tlc(module, cfg, workers=4, cont=False, timeout=600)
        say(len(r.violated) > 0, "deviation %s is rejected by %s (%s)" % (cfg[len(module) + 1:-4], module, ",".join(sorted(r.violated))[:80]))
    # 2c. the symbolic instance has teeth too: Apalache refutes the two deliberately wrong limiters of Apa_Limiters.tla
    # (an inconclusive run -- tool missing, timeout -- is reported and tolerated: the symbolic instance is an addition to TLC)
    for module, inv in (("Apa_Limiters", "InvBad"), ("Apa_Limiters", "InvBad2"), ("Apa_Scalar", "InvBadCfl"), ("Apa_Scalar", "InvBadRegion"),
                        ("Apa_Fluxes", "InvBadHll"), ("Apa_Fluxes", "InvBadBurgers"), ("Apa_Implicit", "InvBadExplicit"),
                        ("Apa_Vars", "InvBadEnthalpy2D"),
                        ("Apa_Positivity", "InvBadCfl"), ("Apa_Positivity", "InvBadHll"),
                        ("Apa_Speeds", "InvBadEigen"), ("Apa_Mesh", "InvBadRatioAlways"),
                        ("Apa_Recon", "InvBadSeam"), ("Apa_Recon", "InvBadStencil"), ("Apa_Recon", "InvBadThird"),
                        ("Apa_Recon", "InvBadWidthGrad"), ("Apa_Recon", "InvBadMirrorK"), ("Apa_Recon", "InvBadSeamUniform"), ("Apa_RH", "InvBadMomentum")):
        v, _w = core.apalache(module, inv, timeout=300)
        say(v != "NoError", "Apalache: %s of %s is %s" % (inv, module, "refuted" if v == "Error" else v))
    for init, inv, what in (("InitBad", "InvNoneMissed", "one snapshot per iteration (D01) loses a requested time"),
                            ("InitBadMaxit", "InvMaxit", "an iteration limit compared with the cumulative count ends a restart early"),
                            ("InitBadMon", "InvMonitor", "a monitor counting the steps of this call misses its multiples after a restart"),
                            ("Init", "InvVacMon", "a monitor with three entries after a restart is reachable"),
                            ("Init", "InvVacThree", "three snapshots in one run are reachable"),
                            ("Init", "InvVacTwoInOne", "two snapshots in one iteration are reachable")):
        v, _w = core.apalache("Apa_Driver", inv, timeout=300, init=init, length=6)
        say(v != "NoError", "Apalache: Apa_Driver %s: %s" % (what, "refuted" if v == "Error" else v))
    # 3. binding: corrupted event traces recorded from the real code are rejected by Trace_Driver
    try:
        from . import driver_obs as D, driver_trace
        traces = []
        k = 0
        for cn, ts, stop in (("explicit", [1, 5], {"maxit": 3}), ("gear", [0, 2, 3], {"tottime": 0.75}),
                             ("cranknicolson", [4, 9], None), ("rk2", [], {"maxit": 2})):
            S = D.Session(cn, ncell=3, profile="c4")
            raw, _ = S.call("solve", S.f0, 1.0, [t / D.UNIT for t in ts], stop)
            k += 1
            traces.append(D.trace_of([raw], ["f0"], D.KIND_OF[cn], "c4", 0.0, k))
        good = list(traces)
        muts = []

        def mut(t, f, name):
            t2 = copy.deepcopy(t)
            f(t2)
            t2["id"] = 1000 + len(muts)
            muts.append((t2, name))
        t = traces[0]
        mut(t, lambda x: [e for e in x["events"] if e["e"] == "step"][0].__setitem__("h", 2), "snapshot step length")
        mut(t, lambda x: [e for e in x["events"] if e["e"] == "step"][-1].__setitem__("id", 99), "unknown source state")
        mut(t, lambda x: x["events"][-1].__setitem__("nit", x["events"][-1]["nit"] + 1), "iteration count")
        mut(t, lambda x: x["events"][-1]["res"][0].__setitem__("it", 5), "snapshot it stamp")
        mut(t, lambda x: x["events"][-1]["res"][-1].__setitem__("t", 6), "snapshot time")
        mut(t, lambda x: x["events"].pop([i for i, e in enumerate(x["events"]) if e["e"] == "ts"][0]), "missing TimeStep event")
        def stale(x):
            st = [e for e in x["events"] if e["e"] == "step"]
            st[2]["id"] = st[0]["id2"]       # the main step starts from the snapshot instead of Qn
        mut(traces[1], stale, "main step taken from a snapshot")
        wd = core.scratch("selftest")
        acc, rej, res = driver_trace.validate(good + [m for m, _ in muts], wd)
        say(all(t["id"] in acc for t in good), "recorded traces accepted (%d)" % len(good))
        for m, name in muts:
            say(m["id"] in rej, "corrupted trace rejected: " + name)
    except core.MachineryError as ex:
        say(False, "trace validation machinery: %s" % ex)
    print("SELFTEST " + ("PASSED" if ok else "FAILED"))
    return 0 if ok else 1
