SPECIFICATION Spec
CONSTANTS
  MaxN = 6
  MaxNx = 4
INVARIANT Partition1D
INVARIANT RefinedZones
INVARIANT Tables2D
INVARIANT CellFaces
CHECK_DEADLOCK FALSE
