"""C11 reconstruction exactness and kappa stencil: FVM1D.tla model checked on all lattice meshes (free flux);
face states of the REAL reconstructions observed at the numflux seam and judged by TLC."""
import os, random, sys
from . import core, fd
from . import fvm1d_cases as K
from .fvm_check import run_check


def sig_of(r):
    return {"kind": r["kind"], "recon": r.get("recon", ""), "bc": "%s/%s" % (r.get("bcl", {}).get("type", "") if isinstance(r.get("bcl"), dict) else r.get("bcl", ""),
                                                                                r.get("bcr", {}).get("type", "") if isinstance(r.get("bcr"), dict) else r.get("bcr", ""))}


def run(tier):
    rnd = random.Random(core.seed())
    recs = (K.exact_rhs_cases(rnd, tier) + K.table_tok_cases(rnd, tier) + K.stencil_cases(rnd, tier) + K.multi_component_cases(rnd, tier)
            + K.direct_call_cases(rnd, tier))
    from . import fvm2d_cases as K2
    recs2 = K2.stencil2d_cases(rnd, tier) + K2.exact2d_cases(rnd, tier)
    rc = run_check(
        "C11", tier,
        rule="model: every lattice mesh (N<=MaxCells, integer faces) x data/constant/linear profiles x reconstruction x BC pair "
             "on FVM1D.tla; code: face states seen at the numflux seam for dyadic (exact) and general (round-off) cases, unit "
             "impulses for the kappa stencil; distinct = full case content",
        assumptions=["exact regime = uniform power-of-two meshes with dyadic data (every float operation exact) and first order on "
                     "power-of-two widths; elsewhere the round-off clause TolRoundoff = 2^22 ulps of the data scale",
                     "interior = faces whose two neighbouring gradients are interior (non periodic)"],
        mc_runs=[("MC_FVM1D", "MC_FVM1D.cfg" if tier == "quick" else "MC_FVM1D_f.cfg", 16)],
        groups=[("Judge_FVM1D", recs), ("Judge_FVM2D", recs2)], prefixes=["C11"], sig_of=sig_of,
        symbolic=("Apa_Recon", ["InvLinearK", "InvLinearMuscl", "InvConstant", "InvSeam", "InvStencil", "InvStencilMirror", "InvMoments"],
                  "model level, beyond the lattice: Apa_Recon.tla proves with Apalache/Z3, for ALL non-uniform meshes (integer faces, "
                  "hence every rational mesh), ALL linear profiles and ALL k = kn/kd, that both face states of a cell with interior "
                  "gradients equal the profile at the face (k-schemes as xnum.extrapolk forms them, MUSCL with any idempotent limiter), "
                  "that the periodic seam distance is origin independent, and, for ALL data, that the upwind operator on a uniform mesh "
                  "is the circulant kappa stencil of FVM1D.tla, second order for every k and third order exactly for k = 1/3"))
    return rc


if __name__ == "__main__":
    sys.exit(run(os.environ.get("VERIF_TIER", "quick")))
