"""Observation of the real space operators (modeldisc.fvm1d / fvm2dcart) at the model protocol seam.

TableModel  -- a synthetic scalar model whose numerical flux is a GENERIC function of the exact face states it is
               given (seeded dyadic table): the real operator is exercised as a function of a free flux, every index,
               sign, volume or wrap error changes the result, and all arithmetic stays exact on dyadic data.
Recording   -- a wrapper around a real model that records, at the single numflux call of one rhs evaluation, the
               complete left/right face states (after boundary treatment) and the flux array it returned.
"""
import os, sys, random
from fractions import Fraction
import numpy as np
from . import core, fd

F = Fraction


try:
    import flowdyn.modelphy.base as _realbase
    _RealModelBase = _realbase.model
except Exception:          # pragma: no cover
    _RealModelBase = object

class TableFlux:
    """deterministic generic dyadic function of (pL, pR[, axis]); antisym twin: G(a, b) = -F(b, a)"""

    def __init__(self, seed, mirror_of=None, linear=None):
        self.seed = seed
        self.table = {}
        self.mirror_of = mirror_of
        self.linear = linear      # None, or speed a: interpreted upwind flux a*pL (a>0) / a*pR (a<0)

    def value(self, a, b, axis=0):
        if self.linear is not None:
            return self.linear * (a if self.linear > 0 else b)
        if self.mirror_of is not None:
            return -self.mirror_of.value(b, a, axis)
        key = (float(a), float(b), int(axis))
        v = self.table.get(key)
        if v is None:
            r = random.Random(hash((self.seed, key)) & 0xFFFFFFFF)
            v = r.randint(-64, 64) / 8.0
            self.table[key] = v
        return v

    def __call__(self, pL, pR, axis=None):
        out = np.zeros(len(pL))
        for i in range(len(pL)):
            out[i] = self.value(pL[i], pR[i], 0 if axis is None else int(axis[i]))
        return out


class TableModel(_RealModelBase):
    """scalar model (prim = cons) with a TableFlux; BCs: dirichlet (from base), 'copy' (zero gradient);
    optional source list; records every numflux call.  It DERIVES from flowdyn's own base model, as a user's model does: whatever
    default the library adds to (or asks of) the base class is inherited, so a refactoring of the protocol does not break the fake"""

    def __init__(self, flux, source=None, dt_speed=1.0):
        try:
            _RealModelBase.__init__(self, name="table", neq=1)
        except Exception:
            pass
        self.neq = 1
        self.shape = [1]
        self.islinear = 0
        self.source = source
        self.flux = flux
        self.calls = []
        self.dt_speed = dt_speed
        self.equation = "table"

    def initdisc(self, mesh):
        return

    def cons2prim(self, q):
        return [1 * d for d in q]

    def prim2cons(self, p):
        return [1 * d for d in p]

    def numflux(self, name, pL, pR, dir=None, **_kw):
        axis = None
        if dir is not None:
            axis = np.asarray(dir)[1]      # 0 for x faces, 1 for y faces
        fl = self.flux(pL[0], pR[0], axis)
        self.calls.append(([p.copy() for p in pL], [p.copy() for p in pR], [fl.copy()]))
        return [fl]

    def namedBC(self, name, dir, data, param, **_kw):
        if name == "dirichlet":
            return param["prim"]
        if name == "copy":
            return [1 * d for d in data]
        raise KeyError(name)

    def timestep(self, data, dx, condition, **_kw):
        return condition * dx / self.dt_speed + 0 * data[0]

    def nameddata(self, name, data):
        return data[0].copy()

    def list_var(self):
        return ["q"]


class Recording:
    """transparent wrapper of a real model: records (pL, pR, flux) at numflux and (x, q, value) at each source call"""

    def __init__(self, model):
        object.__setattr__(self, "_m", model)
        object.__setattr__(self, "calls", [])

    def __getattr__(self, k):
        return getattr(self._m, k)

    def __setattr__(self, k, v):
        setattr(self._m, k, v)

    def numflux(self, name, pL, pR, *a):
        fl = self._m.numflux(name, pL, pR, *a)
        self.calls.append(([np.array(p, dtype=float, copy=True) for p in pL], [np.array(p, dtype=float, copy=True) for p in pR],
                           [np.array(f, dtype=float, copy=True) for f in fl]))
        return fl


def bc_dict(b):
    if b[0] == "per":
        return {"type": "per"}
    if b[0] == "dirichlet":
        return {"type": "dirichlet", "prim": [b[1]]}
    return {"type": b[0]}


def rats(v):
    return [core.rat(F(float(x))) for x in v]


def fits_all(*arrs):
    return all(np.isfinite(float(x)) and core.fits(F(float(x))) for a in arrs for x in np.ravel(a))


class FlowdynRaised(Exception):
    """flowdyn itself raised on an admissible case: an observation (the clause that needs a result fails),
    never a machinery failure"""


def guarded(fn, *a, **k):
    try:
        return fn(*a, **k)
    except FlowdynRaised:
        raise
    except Exception as ex:
        raise FlowdynRaised("%s: %s" % (type(ex).__name__, str(ex)[:120]))


def prime_1d(m, recon_name, bcl, bcr):
    """history: the (pooled) reconstruction object first serves a SIBLING mesh -- same cell count, same origin, same length,
    different spacing -- so that nothing remembered from an earlier mesh may leak into the evaluation that is judged
    (the operator is a function of its arguments, not of what the reconstruction object did before)"""
    n = m.ncell
    if n < 2:
        return
    try:
        xf = np.asarray(m.xf, dtype=float)
        xi = np.linspace(0.0, 1.0, n + 1)
        faces = xf[0] + (xf[-1] - xf[0]) * (xi + 0.3 * xi * (1.0 - xi))
        faces[-1] = xf[-1]
        sib = fd.mesh_from_faces(faces)
        if hasattr(m, "length"):
            sib.length = m.length
        model = TableModel(TableFlux(seed=1))
        disc = fd.modeldisc.fvm(model, sib, fd.recon(recon_name), bcL=bc_dict(bcl), bcR=bc_dict(bcr))
        disc.rhs(fd.field.fdata(model, sib, [np.linspace(-1.0, 2.0, n)]))
    except Exception:
        pass


def run_rhs_table(xf_or_mesh, data, recon_name, bcl, bcr, flux, source=None, prime=True):
    """one real rhs evaluation with the table-flux model; returns (mesh, residual, pL, pR, fluxarray, model)"""
    m = xf_or_mesh if hasattr(xf_or_mesh, "ncell") else fd.mesh_from_faces(xf_or_mesh)
    if prime:
        prime_1d(m, recon_name, bcl, bcr)
    model = TableModel(flux, source=source)
    try:
        disc = fd.modeldisc.fvm(model, m, fd.recon(recon_name), bcL=bc_dict(bcl), bcR=bc_dict(bcr))
        f = fd.field.fdata(model, m, [np.array(data, dtype=float)])
        R = disc.rhs(f)
    except Exception as ex:
        raise FlowdynRaised("%s: %s" % (type(ex).__name__, str(ex)[:120]))
    pL, pR, fl = model.calls[-1]
    Rr = np.array(R[0], dtype=float)
    if not (np.all(np.isfinite(Rr)) and np.all(np.isfinite(pL[0])) and np.all(np.isfinite(pR[0])) and np.all(np.isfinite(fl[0]))):
        # finite dyadic data and a finite table flux can only give finite results: NaN/inf is an observation (a failed case)
        raise FlowdynRaised("non-finite face state / residual from finite data")
    return m, Rr, pL[0], pR[0], fl[0], model


def raised_record(ex, **ctx):
    r = dict(kind="raised", what=str(ex)[:200])
    r.update(ctx)
    return r


def exact_uniform_mesh(rnd, n):
    dx = rnd.choice([0.25, 0.5, 1.0, 2.0])
    x0 = rnd.choice([0.0, -1.0, 0.5])
    return fd.uniform(n, length=n * dx, x0=x0), dx


def dyadic_data(rnd, n, kind=None):
    kind = kind or rnd.choice(["rand", "step", "saw", "const", "impulse"])
    if kind == "rand":
        return [rnd.randint(-8, 8) / 4.0 for _ in range(n)]
    if kind == "step":
        k = rnd.randint(0, n)
        return [1.0] * k + [-0.5] * (n - k)
    if kind == "saw":
        return [(-1.0) ** i * (1 + (i % 3)) / 2.0 for i in range(n)]
    if kind == "const":
        return [rnd.choice([0.0, 1.0, -1.5])] * n
    j = rnd.randrange(n)
    return [1.0 if i == j else 0.0 for i in range(n)]


EXACT_RECONS = ["extrapol1", "extrapol2", "k-1", "k0", "k1/2", "k1", "muscl_minmod", "muscl_superbee"]
BC_CHOICES = [(("per",), ("per",)), (("copy",), ("copy",)), (("dirichlet", 1.0), ("copy",)), (("copy",), ("dirichlet", 2.0)),
              (("dirichlet", 0.0), ("dirichlet", 1.0))]


def bc_json(b):
    return {"type": b[0], "val": core.rat(F(b[1])) if len(b) > 1 else [0, 1]}
