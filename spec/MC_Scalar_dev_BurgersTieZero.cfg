SPECIFICATION Spec
CONSTANTS
  Ns = {4}
  Vals <- ValsQuick
  ReconsS = {"extrapol1", "muscl_minmod", "muscl_superbee", "muscl_vanleer"}
  Integs = {"explicit", "rk2_heun"}
  Cfls <- CflsQ
  Steps = 1
  ScalarDeviations = {"BurgersTieZero"}
  Models = {"burgers"}
INVARIANT InvMax
INVARIANT InvTVD
INVARIANT InvMean
CHECK_DEADLOCK FALSE
