"""D21: the named variable 'massflow' of a nozzle field (rho u A(x_cell)) follows the LAST mesh its model was discretised on.
A field on mesh 1 must give rho*u*A(cell centres of mesh 1) whatever other operators its model was given to (C17).
exit 1: violated, exit 0: holds."""
import sys
import numpy as np
import flowdyn.mesh as mesh
import flowdyn.modelphy.euler as euler
import flowdyn.modeldisc as modeldisc
import flowdyn.xnum as xnum

law = lambda x: 1.0 + 0.5 * x          # noqa: E731
m1 = mesh.unimesh(ncell=8, length=1.0)
m2 = mesh.refinedmesh(ncell=8, length=1.0, ratio=3.0)
noz = euler.nozzle(law, gamma=1.4)
op1 = modeldisc.fvm(noz, m1, xnum.extrapol1(), numflux="hlle")
x = m1.centers()
f1 = op1.fdata_fromprim([1.0 + 0.1 * np.sin(6 * x), 0.5 + 0.1 * x, 1.0 + 0.0 * x])
want = f1.data[1] * law(m1.centers())
before = float(np.max(np.abs(f1.phydata("massflow") - want)))
modeldisc.fvm(noz, m2, xnum.extrapol1(), numflux="hlle")            # the same model is given to an operator on another mesh
after = float(np.max(np.abs(f1.phydata("massflow") - want)))
print("massflow defect of the field on mesh 1: %.3e before, %.3e after the model served a second mesh" % (before, after))
sys.exit(1 if after > 1e-12 else 0)
