"""C07 time bookkeeping (and the C18(ii) time-step use in the driver): model check Driver.tla, replay every
TLC-enumerated scenario through the real solve() of every integrator class, let TLC judge the contract."""
import json, os, random, sys, time
import numpy as np
from . import core
from .core import Report


def gen_scenarios(rep, tier, workdir):
    cfg = "MC_Driver_c07q.cfg" if tier == "quick" else "MC_Driver_c07f.cfg"
    gen = os.path.join(workdir, "gen.ndjson")
    res = core.tlc("MC_Driver", cfg, workers=1 if tier == "quick" else 1, env={"GEN_FILE": gen},
                   coverage=(tier == "thorough"), timeout=3000)
    core.tlc_must_pass(res, "MC_Driver " + cfg)
    rep.add_tlc("MC_Driver/" + cfg, res)
    if res.coverage:
        never = [a for a, (d, c) in res.coverage.items() if c == 0]
        rep.vacuous += ["action never taken: " + a for a in never]
    scen = core.read_ndjson(gen)
    # the instance around the origin of times (start times <= 0, stop time exactly 0, negative save times)
    gen0 = os.path.join(workdir, "gen_neg.ndjson")
    res0 = core.tlc("MC_Driver", "MC_Driver_c07neg.cfg", workers=1, env={"GEN_FILE": gen0}, timeout=3000)
    core.tlc_must_pass(res0, "MC_Driver c07neg")
    rep.add_tlc("MC_Driver/c07neg", res0)
    return scen + core.read_ndjson(gen0)


def scenario_sig(sc, clsname):
    """signature used to match known findings: structural features of the scenario, not its numbers"""
    ts = sc["tsave"]
    feats = []
    if ts and not isinstance(ts[0], list) and ts[0] == sc["t0"]:
        feats.append("save_at_start")
    if "ops" in sc:
        feats.append("script:" + "+".join(sc["ops"]))
    return {"cls": clsname, "kind": sc.get("kind", ""), "features": ",".join(feats)}


def run(tier):
    from . import driver_obs as D
    rep = Report("C07", tier)
    rep.rule = ("scenario = (integrator class, dt profile, start time, save-time list, stop dictionary); TLC enumerates "
                "them on Driver.tla, each is replayed through the real solve(); non-trivial = has a save time strictly "
                "inside a step, equal to the start, two in one step, or beyond the stop")
    rep.assumptions = [
        "the integrator's own step() on a fresh object is the reference for 'the ideal forward step' (step semantics are C05/C06)",
        "comparisons between times closer than 4 ulp may go either way",
        "bounded: <=3 save times on a lattice of sixteenths, <=6 iterations per call, 3-cell linear ODE"]
    wd = core.scratch("c07")
    rnd = random.Random(core.seed())
    # the loop of _solve with SYMBOLIC times (start, save times, stop time, iteration limit, every step): Apalache, bounded in
    # the number of loop iterations only
    core.apalache_suite(rep, "Apa_Driver", ["InvSnapshots", "InvNoneMissed", "InvFirstStop", "InvCounts", "InvMaxit"],
                        "model level, beyond the lattice: Apa_Driver.tla checks the snapshot / stop / counting clauses of the driver "
                        "loop with Apalache/Z3 for EVERY integer starting time, up to three save times, stop time, iteration limit "
                        "and time step, over the first %d loop iterations" % (5 if tier == "quick" else 11),
                        timeout=1800, length=6 if tier == "quick" else 12)
    scen = gen_scenarios(rep, tier, wd)
    recs, meta = [], {}
    traces = []
    rid = 0
    drift = 0
    t_start = time.time()
    for sc in scen:
        classes = D.KIND_CLASSES[sc["kind"]]
        if tier == "quick" and len(classes) > 3:
            classes = rnd.sample(classes, 3)
        for cn in classes:
            # the unit of time is free: every third replay runs the same scenario in units of 2^-40 (steps of 2e-13 instead
            # of 1/4): nothing in the driver may know an absolute size of times
            ts_unit = 2.0 ** -40 if (len(recs) % 3 == 1) else 1.0
            S = D.Session(cn, ncell=3, profile=sc["prof"], t0=sc["t0"] / D.UNIT * ts_unit, tscale=ts_unit)
            stop = {}
            if sc["tot"] != -1:
                stop["tottime"] = sc["tot"] / D.UNIT * ts_unit
            if sc["maxit"] != -1:
                stop["maxit"] = sc["maxit"]
            ts_ = [t / D.UNIT * ts_unit for t in sc["tsave"]]
            # the save times come as a list, a tuple or a numpy array, in turn
            ts_ = [ts_, tuple(ts_), np.array(ts_, dtype=float)][rid % 3]
            raw, _ = S.call("solve", S.f0, 1.0, ts_, stop or None)
            call = D.project([raw], rid)[0]
            rid += 1
            recs.append({"id": rid, "kind": "call", "call": call})
            meta[rid] = (sc, cn, raw)
            tr = D.trace_of([raw], ["f0"], sc["kind"], sc["prof"], S.f0.time, rid, tscale=ts_unit)
            if tr is not None:
                traces.append(tr)
            rep.evaluations += 1
            ts = sc["tsave"]
            if ts:
                rep.nontrivial.add((cn, sc["prof"], sc["t0"], tuple(ts), sc["tot"], sc["maxit"]))
            # drift: the code's outcome vs the implementation-shaped specification (exact-time integrators only)
            if cn in ("explicit", "forwardeuler", "rk2", "rk2_heun", "implicit", "backwardeuler", "trapezoidal",
                      "cranknicolson", "gear", "lsrk25bb", "lsrk26bb", "lsrk4"):
                got = (raw["nit"], round(raw["tfin"] / ts_unit * D.UNIT, 9), [round(t / ts_unit * D.UNIT, 9) for (t, _, _) in raw["res"]],
                       [i for (_, i, _) in raw["res"]])
                exp = (sc["nit"], float(sc["tfin"]), [float(t) for t in sc["rest"]], list(sc["resit"]))
                if got != exp:
                    drift += 1
                    if len(rep.drift) < 10:
                        rep.drift.append("cls=%s scenario=%s code=%s spec=%s" % (cn, json.dumps(
                            {k: sc[k] for k in ("prof", "t0", "tsave", "tot", "maxit")}), got, exp))
            if len(rep.samples) < 4 and ts:
                rep.sample({"scenario": {k: sc[k] for k in ("kind", "prof", "t0", "tsave", "tot", "maxit")},
                            "class": cn, "observed": D.describe(raw), "record": call})
    # C18 (ii): non-uniform per-cell dt with rhs == 1: every cell advances by min(dt) / by its own dt (dtlocal)
    for cn in ("explicit", "rk2", "rk2_heun"):
        for dtlocal in (False, True):
            for prof in ("c4", "var"):
                S = D.Session(cn, ncell=4, profile=prof, dtlocal_spread=True, rhs_mode="one")
                raw, _ = S.call("solve", S.f0, 0.5, [], {"maxit": 4}, directives={"dtlocal": True} if dtlocal else None)
                raw["rhs_mode"] = "one"
                call = D.project([raw], rid)[0]
                rid += 1
                recs.append({"id": rid, "kind": "call", "call": call})
                meta[rid] = ({"kind": "onestep", "prof": prof, "t0": 0, "tsave": [], "tot": -1, "maxit": 4,
                              "dtlocal": dtlocal}, cn, raw)
                rep.evaluations += 1
    # C18 (ii) across calls on ONE solver object with a CHANGING CFL number (solve, restart, solve), models that declare
    # themselves linear included: with rhs == 1 the data increment of every cell IS the sum of the steps it was advanced by,
    # which must be nit x CFL x (the profile's step) x (its own factor with dtlocal) -- computed here from the call's own CFL
    # number, independently of what the code asked calc_timestep
    for (cn, dtlocal, islin, op, cfl, nmax, raw) in D.changing_cfl_calls():
        call = D.project([raw], rid)[0]
        rid += 1
        recs.append({"id": rid, "kind": "call", "call": call})
        meta[rid] = ({"kind": "onestep", "prof": "c4", "t0": 0, "tsave": [], "tot": -1, "maxit": nmax,
                      "dtlocal": dtlocal, "op": op, "cfl": cfl, "islinear": islin}, cn, raw)
        rep.evaluations += 1
    rep.extra["drift_total"] = drift
    from . import driver_trace
    driver_trace.report(rep, traces, wd, lambda tid: "cls=%s scenario=%s" % (meta[tid][1], json.dumps(
        {k: meta[tid][0][k] for k in ("prof", "t0", "tsave", "tot", "maxit")})))
    # multi-call scripts on one solver object (the C08 instance of Driver.tla): every call must satisfy the C07 contract too,
    # with the stop dictionary / save list objects shared between calls as a user script shares them
    from . import c08
    gen2 = os.path.join(wd, "gen_scripts.ndjson")
    res2 = core.tlc("MC_Driver", "MC_Driver_c08.cfg", workers=1, env={"GEN_FILE": gen2}, timeout=3000)
    core.tlc_must_pass(res2, "MC_Driver C08 instance")
    rep.add_tlc("MC_Driver/C08-scripts", res2)
    for k, sc in enumerate(core.read_ndjson(gen2)):
        if len(sc["calls"]) < 2 or (tier == "quick" and k % 2):
            continue
        classes = D.KIND_CLASSES[sc["kind"]]
        cn = classes[k % len(classes)]
        raws, rels, _ = c08.run_script(D, cn, sc, variant=k)
        rid += 1
        calls = D.project(raws, rid)
        recs.append({"id": rid, "kind": "family", "calls": calls, "rels": []})
        meta[rid] = ({"kind": sc["kind"], "prof": sc["prof"], "t0": sc["t0"], "tsave": [c["tsave"] for c in sc["calls"]],
                      "tot": [c["tot"] for c in sc["calls"]], "maxit": [c["maxit"] for c in sc["calls"]],
                      "ops": [c["op"] for c in sc["calls"]]}, cn, [D.describe(r) for r in raws])
        rep.evaluations += len(raws)
    # the older public driver solve_legacy (outside the listed properties): scripts enumerated on the legacy instance of
    # Driver.tla, replayed, judged against its own contract (clauses L_xxx, reported as DRIFT) and trace-validated
    gen3 = os.path.join(wd, "gen_legacy.ndjson")
    res3 = core.tlc("MC_Driver", "MC_Driver_legacy.cfg", workers=1, env={"GEN_FILE": gen3}, timeout=3000)
    core.tlc_must_pass(res3, "MC_Driver legacy instance")
    rep.add_tlc("MC_Driver/legacy", res3)
    ltraces = []
    nleg = 0
    for k, sc in enumerate(core.read_ndjson(gen3)):
        classes = D.KIND_CLASSES[sc["kind"]]
        for cn in (classes if tier == "thorough" else [classes[k % len(classes)]]):
            raws, rels, trace = c08.run_script(D, cn, sc, variant=k)
            rid += 1
            nleg += 1
            calls = D.project(raws, rid)
            recs.append({"id": rid, "kind": "family", "calls": calls, "rels": rels})
            meta[rid] = ({"kind": sc["kind"], "prof": sc["prof"], "t0": sc["t0"], "tsave": [c["tsave"] for c in sc["calls"]],
                          "tot": [c["tot"] for c in sc["calls"]], "maxit": [c["maxit"] for c in sc["calls"]],
                          "ops": [c["op"] for c in sc["calls"]]}, cn, [D.describe(r) for r in raws])
            if trace is not None:
                trace["id"] = rid
                ltraces.append(trace)
            rep.evaluations += len(raws)
            # the specification's own outcome of each legacy call (exact-time integrators)
            if cn in ("explicit", "forwardeuler", "rk2", "rk2_heun", "implicit", "backwardeuler", "trapezoidal", "cranknicolson", "gear"):
                for c, raw in zip(sc["calls"], raws):
                    got = (raw["nit"], raw["tfin"] * D.UNIT, [t * D.UNIT for (t, _, _) in raw["res"]])
                    exp = (c["nit"], float(c["tfin"]), [float(t) for t in c["rest"]])
                    if got != exp and len(rep.drift) < 10:
                        rep.drift.append("legacy cls=%s call=%s code=%s spec=%s" % (cn, json.dumps(
                            {x: c[x] for x in ("op", "tsave", "cfl")}), got, exp))
    rep.extra["legacy_scripts_replayed"] = nleg
    if ltraces:
        acc, rej, tres = driver_trace.validate(ltraces, wd, name="legacy_trace")
        rep.add_tlc("Trace_Driver/legacy", tres, counts_as_model=False)
        rep.extra["legacy_event_traces_validated"] = len(ltraces)
        rep.extra["legacy_event_traces_accepted"] = len(acc)
        rep.traces += len(ltraces)
        for tid in sorted(rej)[:5]:
            rep.drift.append("legacy event trace %d is not a behaviour of Driver.tla: cls=%s %s" % (tid, meta[tid][1], json.dumps(meta[tid][0])[:200]))
    rep.extra["replay_wall_s"] = round(time.time() - t_start, 1)
    bad = judge(rep, recs, meta, wd, D)
    for b in bad:
        if b["clause"].startswith("L_") and len(rep.drift) < 20:
            rep.drift.append("solve_legacy: clause %s fails for cls=%s %s" % (b["clause"], meta[b["id"]][1], json.dumps(meta[b["id"]][0])[:200]))
    return rep.finish()


def judge(rep, recs, meta, wd, D, prop_filter=("C07",)):
    bad, res = core.judge("Judge_Driver", recs, wd, name="judge", unjudgeable="C07_unjudgeable")
    rep.add_tlc("Judge_Driver", res, counts_as_model=False)
    rep.traces += len(recs)
    for b in bad:
        clause = b["clause"]
        if not clause.startswith(prop_filter):
            continue
        sc, cn, raw = meta[b["id"]]
        sig = scenario_sig(sc, cn)
        rec = [r for r in recs if r["id"] == b["id"]][0]
        rep.violation(clause, sig, {"scenario": sc, "class": cn, "observed": D.describe(raw) if isinstance(raw, dict) else raw,
                                    "record": rec})
    return bad


if __name__ == "__main__":
    tier = os.environ.get("VERIF_TIER", "quick")
    sys.exit(run(tier))
