SPECIFICATION Spec
CONSTANTS
  Scripts <- ScriptsC08
  Kinds = {"onestep", "implicit", "gear"}
  DtProfiles = {"c4", "var"}
  T0s = {0}
  Deviations = {"StickyDirective"}
INVARIANT InvC07_advance
INVARIANT InvC07_nit
INVARIANT InvC07_times
INVARIANT InvC07_ontraj
INVARIANT InvC07_finite
INVARIANT InvC08_pure
INVARIANT InvC08_fresh
INVARIANT InvC08_repeat
INVARIANT InvC08_split
INVARIANT InvC08_monitors
INVARIANT InvC08_counters
PROPERTY MainAdvancesByDt
PROPERTY NitCountsMainSteps
PROPERTY CallerFieldUntouched
CHECK_DEADLOCK FALSE
