----------------------------- MODULE MC_Driver -----------------------------
(* Bounded instances of Driver + the C07/C08 properties stated on its outcomes. *)
EXTENDS Driver, Json, CSV, IOUtils

C == INSTANCE Contract

-----------------------------------------------------------------------------
(* scenario spaces *)
RECURSIVE SortSet(_)
SortSet(S) == IF S = {} THEN <<>> ELSE LET x == CHOOSE y \in S : \A z \in S : y <= z
                                       IN <<x>> \o SortSet(S \ {x})

IncLists(S, k) == {SortSet(T) : T \in {U \in SUBSET S : Cardinality(U) <= k}}

MkCall(op, from, ts, tot, mx, fr) ==
  [op |-> op, from |-> from, tsave |-> ts, tot |-> tot, maxit |-> mx, freqs |-> fr, cfl |-> 1, dtl |-> FALSE]
WithCfl(c, k) == [c EXCEPT !.cfl = k]
WithDtl(c) == [c EXCEPT !.dtl = TRUE]

Admissible(ts, tot, mx) == ~(ts = <<>> /\ tot = None /\ mx = None)

StopsFull  == {<<8, None>>, <<9, None>>, <<16, None>>, <<None, 0>>, <<None, 1>>, <<None, 2>>, <<None, 3>>,
               <<9, 2>>, <<None, None>>}
StopsSmall == {<<8, None>>, <<9, None>>, <<None, 0>>, <<None, 2>>, <<None, None>>}

SingleSolves(times, k, stops) ==
  {<<MkCall("solve", "f0", ts, st[1], st[2], {})>> :
      <<ts, st>> \in {p \in IncLists(times, k) \X stops : Admissible(p[1], p[2][1], p[2][2])}}

(* C07: one solve, every save list / stop dictionary *)
ScriptsC07Full  == SingleSolves({0, 1, 2, 4, 5, 8, 9, 12, 16, 20}, 3, StopsFull)
ScriptsC07Quick == SingleSolves({0, 1, 2, 4, 5, 8, 9, 12}, 2, StopsSmall)

(* C07 around the origin of times: start times <= 0, a stop time of exactly 0, negative save times *)
T0sNeg == {-8, 0}
ScriptsC07Neg == SingleSolves({-8, -4, 0, 4, 8}, 2, {<<0, None>>, <<-4, None>>, <<4, None>>, <<None, 2>>, <<0, 1>>, <<None, None>>})

(* C08: histories on one solver object *)
SolveVariants == {MkCall("solve", "f0", <<>>, None, 3, {}),           \* plain
                  MkCall("solve", "f0", <<>>, None, 3, {1, 2}),       \* with monitors
                  MkCall("solve", "f0", <<1, 5>>, None, 3, {}),       \* with snapshots (one inside a step, one later)
                  MkCall("solve", "f0", <<0, 2, 3>>, 12, None, {2}),  \* start time + two in one step + monitor
                  MkCall("solve", "f0", <<>>, 8, None, {})}
Restarts == {MkCall("restart", "last", <<>>, None, 2, {}),
             MkCall("restart", "last", <<>>, None, 2, {1, 3}),
             MkCall("restart", "last", <<14>>, None, None, {})}
Plain == MkCall("solve", "f0", <<>>, None, 3, {})
ScriptsC08 == {<<a>> : a \in SolveVariants} \cup {<<a, b>> : a \in SolveVariants, b \in SolveVariants \cup Restarts}
              \cup {<<a, b, c>> : a \in {v \in SolveVariants : v.tsave = <<>>},
                                 b \in Restarts, c \in Restarts \cup {Plain}}
              \* the CFL number changes between calls on one solver object (solve/solve, solve/restart, and back)
              \cup {<<a, WithCfl(b, 2)>> : a \in {v \in SolveVariants : v.tsave = <<>>}, b \in Restarts \cup {Plain}}
              \cup {<<WithCfl(a, 2), b>> : a \in {Plain, MkCall("solve", "f0", <<1, 5>>, None, 3, {})}, b \in Restarts \cup {Plain}}
              \cup {<<Plain, WithCfl(b, 2), c>> : b \in Restarts, c \in Restarts \cup {Plain}}
              \* the dtlocal directive given to one call and not to the next (and the other way round)
              \cup {<<WithDtl(a), b>> : a \in {Plain, MkCall("solve", "f0", <<1, 5>>, None, 3, {})}, b \in Restarts \cup {Plain}}
              \cup {<<Plain, WithDtl(b)>> : b \in Restarts \cup {Plain}}
              \cup {<<WithDtl(Plain), WithDtl(b), Plain>> : b \in Restarts}

-----------------------------------------------------------------------------
(* projection of an outcome of the specification onto the observation record of Contract *)
PTm(o, n) == IF n <= Len(o.traj) THEN o.traj[n].t ELSE o.tfin
PDm(o, n) == IF n <= Len(o.traj) THEN o.traj[n].d ELSE o.dfin
RefTag(o, n) == IF kind # "gear" THEN "na" ELSE IF n = 1 THEN o.tag0 ELSE "own"
IdealM(o, n, s, m) == LET h == s - PTm(o, n) IN
                  IF h < 0 THEN <<[h |-> 0, tag |-> "unreachable", m |-> m]>>
                  ELSE IF h = 0 \/ PDm(o, n) = NaN THEN PDm(o, n)
                  ELSE Append(PDm(o, n), [h |-> h, tag |-> RefTag(o, n), m |-> m])
Ideal(o, n, s) == IdealM(o, n, s, "g")

Project(o) ==
  [op |-> o.op, t0 |-> o.t0, it0 |-> o.it0, tsave |-> o.tsave, tot |-> o.tot, maxit |-> o.maxit,
   freqs |-> o.freqs, nit |-> o.nit, totnit |-> o.totnit, itstart |-> o.itstart, tfin |-> o.tfin,
   traj |-> [n \in 1..Len(o.traj) |-> [t |-> o.traj[n].t, tend |-> o.traj[n].t + o.traj[n].dt]],
   res |-> [i \in 1..Len(o.res) |->
              [t |-> o.res[i].t, it |-> o.res[i].it,
               srcs |-> {n \in 1..(o.nit + 1) : o.res[i].d = Ideal(o, n, o.res[i].t)},
               fin |-> o.res[i].d # NaN,
               isfinal |-> o.res[i].d = o.dfin /\ o.res[i].t = o.tfin]],
   mon |-> [i \in 1..Len(o.mon) |->
              [f |-> o.mon[i].f, it |-> o.mon[i].it, t |-> o.mon[i].t,
               src |-> IF \E n \in 1..(o.nit + 1) : PDm(o, n) = o.mon[i].d /\ PTm(o, n) = o.mon[i].t
                       THEN CHOOSE n \in 1..(o.nit + 1) : PDm(o, n) = o.mon[i].d /\ PTm(o, n) = o.mon[i].t
                       ELSE 0]],
   near |-> {}, trajfin |-> (\A n \in 1..(o.nit + 1) : PDm(o, n) # NaN), caller |-> TRUE, negsteps |-> 0]

Lst  == hist[Len(hist)]
Done == pc = "idle" /\ hist # <<>> /\ Lst.op # "legacy"
DoneL == pc = "idle" /\ hist # <<>> /\ Lst.op = "legacy"

(* C07 on every completed call *)
InvC07_advance == Done => C!C07_advance(Project(Lst))
InvC07_nit     == Done => C!C07_nit(Project(Lst))
InvC07_times   == Done => C!C07_times(Project(Lst))
InvC07_ontraj  == Done => C!C07_ontraj(Project(Lst))
InvC07_finite  == Done => C!C07_finite(Project(Lst))

(* C08 (ii): the trajectory is the reference trajectory, a function of (initial field, kind, profile, hidden
   state at the call) only -- hence independent of save times and monitors *)
PureTraj(o) == /\ PTm(o, 1) = o.t0 /\ PDm(o, 1) = o.d0
               /\ \A n \in 1..o.nit : /\ PDm(o, n + 1) = IdealM(o, n, PTm(o, n) + o.traj[n].dt, IF o.dtl THEN "l" ELSE "g")
                                      /\ PTm(o, n + 1) = PTm(o, n) + o.traj[n].dt
                                      /\ o.traj[n].dt = o.cfl * Dt(prof, PTm(o, n))
InvC08_pure == Done => PureTraj(Lst)

(* C08: a fresh solve never inherits hidden state *)
InvC08_fresh == Done => (Lst.op = "solve" /\ kind = "gear" => Lst.tag0 = "none")

(* C08 (i): same call, same field, same object => same everything *)
SameCall(a, b) == a.op = "solve" /\ b.op = "solve" /\ a.t0 = b.t0 /\ a.d0 = b.d0 /\ a.tsave = b.tsave
                  /\ a.tot = b.tot /\ a.maxit = b.maxit /\ a.cfl = b.cfl /\ a.dtl = b.dtl
InvC08_repeat == \A i, j \in 1..Len(hist) :
                    SameCall(hist[i], hist[j]) => /\ hist[i].res = hist[j].res /\ hist[i].traj = hist[j].traj
                                                  /\ hist[i].dfin = hist[j].dfin /\ hist[i].nit = hist[j].nit

(* C08 (iii): solve N then restart M from the returned final field = one solve of N+M *)
IsFinalOnly(o) == o.tsave = <<>> /\ Len(o.res) = 1 /\ o.res[1].d = o.dfin /\ o.res[1].t = o.tfin
InvC08_split == \A j \in 2..Len(hist) :
                   (hist[j].op = "restart" /\ hist[j].cont /\ IsFinalOnly(hist[j - 1]) /\ hist[j - 1].nit > 0) =>
                      /\ hist[j].itstart = hist[j - 1].totnit
                      /\ hist[j].t0 = hist[j - 1].tfin /\ hist[j].d0 = hist[j - 1].dfin
                      /\ (kind = "gear" => hist[j].tag0 = "own")      \* the BDF2 history continues

InvC08_monitors == Done => C!C08_monitors(Project(Lst))
InvC08_counters == Done => C!C08_counters(Project(Lst))

-----------------------------------------------------------------------------
(* solve_legacy: scenario space, projection (a result IS a trajectory point) and its contract *)
LegacyCalls == {MkCall("legacy", "f0", ts, None, None, {}) : ts \in IncLists({0, 1, 2, 4, 5, 8, 9, 12}, 3) \ {<<>>}}
               \cup {MkCall("legacy", "f0", <<5, 2, 9>>, None, None, {}),      \* a save time EARLIER than the previous one
                     MkCall("legacy", "f0", <<4, 4>>, None, None, {})}         \* the same time twice
ScriptsLegacy == {<<a>> : a \in LegacyCalls}
                 \cup {<<WithCfl(a, 2)>> : a \in {c \in LegacyCalls : Len(c.tsave) = 2}}
                 \cup {<<Plain, a>> : a \in {c \in LegacyCalls : Len(c.tsave) = 1}}               \* after a solve on the same object
                 \cup {<<a, MkCall("legacy", "last", <<12, 16>>, None, None, {})>> : a \in {c \in LegacyCalls : Len(c.tsave) = 1}}
                 \cup {<<a, MkCall("restart", "last", <<>>, None, 2, {})>> : a \in {c \in LegacyCalls : Len(c.tsave) = 1}}
ProjectL(o) ==
  [op |-> o.op, t0 |-> o.t0, it0 |-> o.it0, tsave |-> o.tsave, tot |-> o.tot, maxit |-> o.maxit,
   freqs |-> o.freqs, nit |-> o.nit, totnit |-> o.totnit, itstart |-> o.itstart, tfin |-> o.tfin,
   traj |-> [n \in 1..Len(o.traj) |-> [t |-> o.traj[n].t, tend |-> o.traj[n].t + o.traj[n].dt]],
   res |-> [i \in 1..Len(o.res) |->
              [t |-> o.res[i].t, it |-> o.res[i].it,
               srcs |-> {n \in 1..(o.nit + 1) : o.res[i].d = PDm(o, n) /\ o.res[i].t = PTm(o, n)},
               fin |-> o.res[i].d # NaN, isfinal |-> o.res[i].d = o.dfin /\ o.res[i].t = o.tfin]],
   mon |-> <<>>, near |-> {}, trajfin |-> TRUE, caller |-> TRUE, negsteps |-> 0]
InvL_count   == DoneL => C!L_count(ProjectL(Lst))
InvL_times   == DoneL => C!L_times(ProjectL(Lst))
InvL_ontraj  == DoneL => C!L_ontraj(ProjectL(Lst))
InvL_forward == DoneL => C!L_forward(ProjectL(Lst))
InvL_nit     == DoneL => C!L_nit(ProjectL(Lst))
(* the legacy trajectory between two save times is the reference trajectory of the same CFL steps *)
InvL_pure == DoneL => \A n \in 1..Lst.nit : Lst.traj[n].dt = Lst.cfl * Dt(prof, PTm(Lst, n))

-----------------------------------------------------------------------------
(* export: every completed single-call scenario with the specification's own outcome *)
GenFile == IF "GEN_FILE" \in DOMAIN IOEnv THEN IOEnv.GEN_FILE ELSE ""
GenLine(o) == ToJson([kind |-> kind, prof |-> prof, op |-> o.op, t0 |-> o.t0, tsave |-> o.tsave,
                      tot |-> o.tot, maxit |-> o.maxit,
                      nit |-> o.nit, tfin |-> o.tfin,
                      rest |-> [i \in 1..Len(o.res) |-> o.res[i].t],
                      resit |-> [i \in 1..Len(o.res) |-> o.res[i].it]])
Export == (Done /\ script = <<>> /\ GenFile # "") => CSVWrite("%1$s", <<GenLine(Lst)>>, GenFile)

(* export of multi-call scripts: the calls and the specification's outcome of each *)
HistLine == ToJson([kind |-> kind, prof |-> prof, t0 |-> f0.t,
                    calls |-> [k \in 1..Len(hist) |->
                       [op |-> hist[k].op, cont |-> hist[k].cont, tsave |-> hist[k].tsave, tot |-> hist[k].tot, cfl |-> hist[k].cfl, dtl |-> hist[k].dtl,
                        maxit |-> hist[k].maxit, freqs |-> SortSet(hist[k].freqs),
                        nit |-> hist[k].nit, totnit |-> hist[k].totnit, tfin |-> hist[k].tfin,
                        rest |-> [i \in 1..Len(hist[k].res) |-> hist[k].res[i].t],
                        resit |-> [i \in 1..Len(hist[k].res) |-> hist[k].res[i].it],
                        monit |-> [i \in 1..Len(hist[k].mon) |-> hist[k].mon[i].it]]]])
ExportHist == ((Done \/ DoneL) /\ script = <<>> /\ GenFile # "") => CSVWrite("%1$s", <<HistLine>>, GenFile)
(* only for deviations under which a run may never stop (ZeroTottimeIgnored: a stop time of 0 is dropped and nothing else
   ends the run): explore the first iterations only *)
DevBound == nit <= 8
=============================================================================
