------------------------------ MODULE MC_Scalar ------------------------------
EXTENDS Scalar
CONSTANTS Ns, Vals, ReconsS, Integs, Cfls, Steps, ScalarDeviations, Models
VARIABLES n, recon, integ, cfl, model, q, qprev, k
vars == <<n, recon, integ, cfl, model, q, qprev, k>>
ModelSet == {m \in {<<"conv", One>>, <<"conv", R(-1)>>, <<"burgers", Zero>>} : m[1] \in Models}
CflSet == {Q(p[1], p[2]) : p \in Cfls}
Mesh(m) == [f \in 1..(m + 1) |-> R(f - 1)]
NoData == <<>>
ValsDef == {-2, -1, 0, 1, 2}
ValsQuick == {-1, 0, 1, 2}
CflsQ == {<<1, 2>>, <<1, 1>>}
CflsF == {<<1, 4>>, <<1, 2>>, <<1, 1>>}
Init == /\ n \in Ns /\ recon \in ReconsS /\ integ \in Integs /\ cfl \in CflSet /\ model \in ModelSet
        /\ (RLe(cfl, Half) \/ recon = "extrapol1")           \* CFL <= 1/2 for MUSCL, <= 1 for first order
        \* TLC integers are 32 bit: the quadratic flux squares the denominators at every Euler stage and the smooth limiters
        \* square the slopes, so Burgers is run with <= 2 stages and the exact (piecewise linear) limiters
        /\ (model[1] = "burgers" => integ # "rk3ssp" /\ recon \in {"extrapol1", "muscl_minmod", "muscl_superbee"})
        /\ (recon \in {"muscl_vanleer", "muscl_vanalbada"} => integ = "explicit")
        /\ q = NoData /\ qprev = NoData /\ k = 0
Pick == /\ q = NoData
        /\ q' \in {d \in [1..n -> {R(v) : v \in Vals}] : model[1] = "conv" \/ \E c \in 1..n : d[c] # Zero}
        /\ qprev' = q' /\ k' = 0
        /\ UNCHANGED <<n, recon, integ, cfl, model>>
Step == /\ q # NoData /\ k < Steps
        /\ (model[1] = "conv" \/ \E c \in 1..n : q[c] # Zero)
        /\ qprev' = q
        /\ q' = StepOf(integ, Mesh(n), q, DtOf(Mesh(n), q, model, cfl), recon, model, ScalarDeviations)
        /\ k' = k + 1
        /\ UNCHANGED <<n, recon, integ, cfl, model>>
Spec == Init /\ [][Pick \/ Step]_vars
InvMax == (q # NoData) => MaxPrinciple(qprev, q)
InvTVD == (q # NoData) => TVD(qprev, q)
(* conservation of the mean along the way (C01 for these schemes) *)
InvMean == (q # NoData) => RSum(q) = RSum(qprev)
=============================================================================
