------------------------------ MODULE MC_FVM1D ------------------------------
(* bounded instances: lattice meshes x data x reconstructions x boundary conditions; Init picks the configuration,
   Next picks the data (so TLC's workers share the enumeration); every property is an invariant on the data states *)
EXTENDS FVM1D
CONSTANTS MaxCells, MaxLen, DataVals, Recons, CheckKinds

VARIABLES xf, recon, bcl, bcr, d, ck
vars == <<xf, recon, bcl, bcr, d, ck>>

(* strictly increasing integer faces 0 = x_1 < ... < x_{n+1} <= MaxLen *)
RECURSIVE IncSeqs(_, _, _)
IncSeqs(k, lo, hi) == IF k = 0 THEN {<<>>}
                      ELSE UNION {{<<x>> \o s : s \in IncSeqs(k - 1, x + 1, hi)} : x \in lo..hi}
Meshes == UNION {{[f \in 1..(n + 1) |-> R((<<0>> \o s)[f])] : s \in IncSeqs(n, 1, MaxLen)} : n \in 1..MaxCells}
UniMeshes == {[f \in 1..(n + 1) |-> R(f - 1)] : n \in 1..(MaxCells + 1)}
Dir(v) == [type |-> "dirichlet", val |-> v]
Cp == [type |-> "copy", val |-> Zero]
BCs == {<<Per, Per>>, <<Cp, Cp>>, <<Dir(One), Cp>>, <<Cp, Dir(R(2))>>, <<Dir(Zero), Dir(One)>>}
NoData == <<>>

Init == /\ ck \in CheckKinds
        /\ recon \in Recons
        /\ IF ck \in {"shift", "stencil"} THEN xf \in UniMeshes /\ bcl = Per /\ bcr = Per
           ELSE xf \in Meshes /\ \E b \in BCs : bcl = b[1] /\ bcr = b[2]
        /\ d = NoData
Pick == /\ d = NoData
        /\ d' \in [1..N(xf) -> {R(v) : v \in DataVals}]
        /\ UNCHANGED <<xf, recon, bcl, bcr, ck>>
Next == Pick
Spec == Init /\ [][Next]_vars

Period == RSub(xf[Len(xf)], xf[1])
Has == d # NoData
InvConservation == (Has /\ ck = "cons") => Conservation(xf, Period, d, recon, bcl, bcr)
InvMirror == (Has /\ ck = "cons") => MirrorEquivariant(xf, Period, d, recon, bcl, bcr)
InvFirstOrder == (Has /\ ck = "cons") => FirstOrderCopies(xf, d, bcl, bcr)
InvShift == (Has /\ ck = "shift") => \A k \in 1..(N(xf) - 1) : ShiftEquivariant(xf, d, recon, k)
(* constants and linear profiles do not need the data enumeration: checked on the configuration states *)
InvConst == (~Has /\ ck = "cons") => \A c0 \in {Zero, One, Q(-3, 2)} : ConstPreserved(xf, Period, c0, recon, bcl, bcr)
InvLinear == (~Has /\ ck = "cons" /\ bcl.type = "copy" /\ bcr.type = "copy") =>
                \A al \in {Zero, One} : \A be \in {One, R(-2), Q(1, 2)} : LinearExact(xf, al, be, recon)
(* kappa stencil: unlimited schemes, unit impulses, both signs of the speed (mirror image for a < 0) *)
Impulse(n, j) == [c \in 1..n |-> IF c = j THEN One ELSE Zero]
StencilOK == (~Has /\ ck = "stencil" /\ (IsK(recon) \/ recon = "extrapol2") /\ N(xf) >= 1) =>
   LET n == N(xf) st == KappaStencil(KOf(recon)) IN
   \A j \in 1..n :
      /\ UpwindResidual(xf, Period, Impulse(n, j), recon, Per, Per, One) =
           [c \in 1..n |-> RSum([m \in 1..4 |-> IF ((((c + (m - 3) - j) % n) + n) % n) = 0 THEN st[m - 3] ELSE Zero])]
      /\ UpwindResidual(xf, Period, Impulse(n, j), recon, Per, Per, R(-1)) =
           [c \in 1..n |-> RSum([m \in 1..4 |-> IF ((((c - (m - 3) - j) % n) + n) % n) = 0 THEN st[m - 3] ELSE Zero])]
=============================================================================
