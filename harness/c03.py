"""C03 uniform and compatible steady states: structural zero residual of uniform data model checked with a free flux
(FVM1D InvConst, FVM2D InvConst2); the real operators, every flux / reconstruction / matching boundary pair / integrator judged."""
import os, random, sys
from . import core
from . import fvm1d_cases as K1, fvm2d_cases as K2, real_cases as RC
from .fvm_check import run_check


def sig_of(r):
    return {"kind": r["kind"], "model": r.get("model", "table"), "flux": str(r.get("flux", "")), "recon": str(r.get("recon", "")),
            "bc": "%s/%s" % (r.get("bcl", r.get("bc", "")), r.get("bcr", "")), "integrator": r.get("integrator", ""),
            "feature": r.get("feature", "")}


def run(tier):
    rnd = random.Random(core.seed())
    g1 = K1.exact_rhs_cases(rnd, tier) + K1.table_tok_cases(rnd, tier) + RC.uniform_cases(rnd, tier) + [RC.lowmach_witness()]
    g2 = K2.exact2d_cases(rnd, tier) + RC.uniform2d_cases(rnd, tier)
    return run_check(
        "C03", tier,
        rule="model: uniform data on every lattice mesh x reconstruction x compatible BC pair gives the empty formal residual; code: "
             "table flux (bitwise zero), real models with uniform states over Mach -2.2..3 / Froude -2.5..1.7 and 6 decades, every flux "
             "and reconstruction, matching dirichlet / inlet-outlet pairs (parameters from the code's own nameddata), every integrator, "
             "dtlocal on/off; nozzle at rest with non-trivial section laws; 2D with flow angles",
        assumptions=["residual judged as |R_i| dx_i in ulps of the flux scale rho (|u|+c)^k; solves per iteration (round-off) or by the "
                     "solver clause 2^-40 * 2^24 * 256 for implicit integrators",
                     "boundary parameters ptot / rttot are computed by the code's nameddata (assume/guarantee with C17)"],
        mc_runs=[("MC_FVM1D", "MC_FVM1D_cons.cfg" if tier == "quick" else "MC_FVM1D_cons_f.cfg", 16),
                 ("MC_FVM2D", "MC_FVM2D_cons.cfg" if tier == "quick" else "MC_FVM2D_cons_f.cfg", 16)],
        groups=[("Judge_FVM1D", g1), ("Judge_FVM2D", g2)], prefixes=["C03"], sig_of=sig_of)


if __name__ == "__main__":
    sys.exit(run(os.environ.get("VERIF_TIER", "quick")))
