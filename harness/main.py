"""./check entry point"""
import importlib, os, sys, traceback
from . import core


def main(argv):
    if not argv:
        print("usage: check <Cxx> [--tier quick|thorough] [--replay file] | --selftest")
        return 2
    if argv[0] == "--selftest":
        from . import selftest
        return selftest.run()
    prop = argv[0]
    tier = os.environ.get("VERIF_TIER", "quick")
    replay = None
    i = 1
    while i < len(argv):
        if argv[i] == "--tier":
            tier = argv[i + 1]; i += 2
        elif argv[i] == "--replay":
            replay = argv[i + 1]; i += 2
        else:
            i += 1
    os.environ["VERIF_TIER"] = tier
    try:
        mod = importlib.import_module("harness." + prop.lower())
        if replay:
            return mod.replay(replay)
        return mod.run(tier)
    except core.MachineryError as ex:
        print("MACHINERY-FAILURE property=%s %s" % (prop, ex))
        return 2
    except Exception:
        traceback.print_exc()
        print("MACHINERY-FAILURE property=%s (exception in the harness)" % prop)
        return 2


if __name__ == "__main__":
    sys.exit(main(sys.argv[1:]))
