--------------------------------- MODULE RK ---------------------------------
(***************************************************************************)
(* Explicit Runge-Kutta integrators of flowdyn.integration (C05).           *)
(*                                                                         *)
(*  - the property-level predicates: order conditions up to 4, weights,     *)
(*    stage abscissae, Kraaijevanger's SSP test at r = 1, stability         *)
(*    polynomial -- all on an arbitrary tableau (A, b, c), exactly;         *)
(*  - the tableaux of the code (transcribed) and the nominal orders the     *)
(*    property names;                                                       *)
(*  - the three stage machines of the code (Butcher loop, midpoint rk2,     *)
(*    Hu-Hussaini low storage) as actions over formal linear combinations   *)
(*    y + sum a_j k_j, showing the time presented to every stage.           *)
(***************************************************************************)
EXTENDS Rat

(* ------------------------------------------------------------------ tableaux *)
(* A is given as a full s x s matrix (strictly lower triangular), b and c as vectors *)
S(T) == Len(T.b)
RowSum(T, i) == RSum(T.A[i])

Explicit(T) == \A i \in 1..S(T) : \A j \in i..S(T) : T.A[i][j] = Zero
WeightsSumToOne(T) == RSum(T.b) = One
AbscissaeAreRowSums(T) == \A i \in 1..S(T) : T.c[i] = RowSum(T, i)

Ac(T)   == MVec(T.A, T.c)
Ac2(T)  == MVec(T.A, VHad(T.c, T.c))
AAc(T)  == MVec(T.A, Ac(T))
c2(T)   == VHad(T.c, T.c)
c3(T)   == VHad(c2(T), T.c)

Order1(T) == RSum(T.b) = One
Order2(T) == Dot(T.b, T.c) = Q(1, 2)
Order3(T) == /\ Dot(T.b, c2(T)) = Q(1, 3)
             /\ Dot(T.b, Ac(T)) = Q(1, 6)
Order4(T) == /\ Dot(T.b, c3(T)) = Q(1, 4)
             /\ Dot(T.b, VHad(T.c, Ac(T))) = Q(1, 8)
             /\ Dot(T.b, Ac2(T)) = Q(1, 12)
             /\ Dot(T.b, AAc(T)) = Q(1, 24)

OrderAtLeast(T, p) == /\ (p >= 1 => Order1(T)) /\ (p >= 2 => Order2(T))
                      /\ (p >= 3 => Order3(T)) /\ (p >= 4 => Order4(T))

(* Kraaijevanger: the method is a convex combination of forward-Euler steps of size dt (SSP coefficient >= 1)
   iff with K = [[A, 0], [b^T, 0]]:  P = K (I + K)^-1 >= 0 and P e <= e.   K is strictly lower triangular, hence
   nilpotent, so (I + K)^-1 = sum_m (-K)^m is a finite sum of matrix powers. *)
KMat(T) == LET s == S(T) IN
           [i \in 1..(s + 1) |-> [j \in 1..(s + 1) |->
               IF j = s + 1 THEN Zero ELSE IF i <= s THEN T.A[i][j] ELSE T.b[j]]]
RECURSIVE AltSum(_, _, _)
AltSum(K, m, top) == IF m > top THEN ZeroM(Len(K), Len(K))
                     ELSE MAdd(MScale(IF m % 2 = 0 THEN One ELSE R(-1), MPow(K, m)), AltSum(K, m + 1, top))
PMat(T) == LET K == KMat(T) IN MMul(K, AltSum(K, 0, Len(K)))
SSP1(T) == LET P == PMat(T) IN
           /\ \A i \in 1..Len(P) : \A j \in 1..Len(P) : RLe(Zero, P[i][j])
           /\ \A i \in 1..Len(P) : RLe(RSum(P[i]), One)

(* stability polynomial coefficients gamma_k = b^T A^(k-1) e, k = 1..s (gamma_0 = 1) *)
Ones(n) == [i \in 1..n |-> One]
RECURSIVE APowE(_, _)
APowE(T, k) == IF k = 0 THEN Ones(S(T)) ELSE MVec(T.A, APowE(T, k - 1))
Gamma(T, k) == Dot(T.b, APowE(T, k - 1))
TaylorTo(T, p) == \A k \in 1..p : RMul(Gamma(T, k), R(CASE k = 1 -> 1 [] k = 2 -> 2 [] k = 3 -> 6 [] k = 4 -> 24 [] OTHER -> 120)) = One

(* ------------------------------------------------------------------ the code's tableaux *)
Lower(rows) == LET s == Len(rows) IN   \* rows[i] = coefficients a_{i+1,1..i}; last row = b
               [A |-> [i \in 1..s |-> [j \in 1..s |-> IF i >= 2 /\ j <= i - 1 THEN rows[i - 1][j] ELSE Zero]],
                b |-> rows[s],
                c |-> [i \in 1..s |-> IF i = 1 THEN Zero ELSE RSum(rows[i - 1])]]

TabExplicit == Lower(<< <<One>> >>)
TabRk2      == Lower(<< <<Half>>, <<Zero, One>> >>)                       \* midpoint
TabRk2Heun  == Lower(<< <<One>>, <<Half, Half>> >>)
TabRk3Heun  == Lower(<< <<Q(1,3)>>, <<Zero, Q(2,3)>>, <<Q(1,4), Zero, Q(3,4)>> >>)
TabRk3ssp   == Lower(<< <<One>>, <<Q(1,4), Q(1,4)>>, <<Q(1,6), Q(1,6), Q(2,3)>> >>)
TabRk4      == Lower(<< <<Half>>, <<Zero, Half>>, <<Zero, Zero, One>>, <<Q(1,6), Q(1,3), Q(1,3), Q(1,6)>> >>)
(* Hu-Hussaini low storage: Q_s = Q_0 + dt beta_s R(Q_{s-1}) *)
LowStorage(beta) == LET s == Len(beta) IN
                    Lower([i \in 1..s |-> [j \in 1..i |-> IF j = i THEN beta[i] ELSE Zero]])
TabLsrk4    == LowStorage(<<Q(1,4), Q(1,3), Half, One>>)

Nominal == [explicit |-> 1, forwardeuler |-> 1, rk2 |-> 2, rk2_heun |-> 2, rk3_heun |-> 3, rk3ssp |-> 3, rk4 |-> 4,
            lsrk25bb |-> 2, lsrk26bb |-> 2, lsrk4 |-> 2]
MustBeSSP == {"rk3ssp", "rk2_heun", "explicit", "forwardeuler"}
CodeTableaux == [explicit |-> TabExplicit, forwardeuler |-> TabExplicit, rk2 |-> TabRk2, rk2_heun |-> TabRk2Heun,
                 rk3_heun |-> TabRk3Heun, rk3ssp |-> TabRk3ssp, rk4 |-> TabRk4, lsrk4 |-> TabLsrk4]

(* published Bogey-Bailly (JCP 2004) stability polynomial coefficients gamma_1.., in units of 10^-12 as
   <<high, low>> limbs of 6 digits each (TLC integers are 32 bit) *)
BB5 == << <<1000000, 0>>, <<500000, 0>>, <<165250, 353664>>, <<39372, 585984>>, <<7149, 96448>> >>
BB6 == << <<1000000, 0>>, <<500000, 0>>, <<165919, 771368>>, <<40919, 732041>>, <<7555, 704391>>, <<891, 421261>> >>
TAY4 == << <<1000000, 0>>, <<500000, 0>>, <<166666, 666667>>, <<41666, 666667>> >>
(* |x - y| <= tol (tol < 10^6 units of 10^-12) on limb pairs *)
LimbClose(x, y, tol) == LET dh == x[1] - y[1] IN
                        /\ dh \in {-1, 0, 1}
                        /\ Abs(dh * 1000000 + (x[2] - y[2])) <= tol
PolyClose(g, ref, tol) == Len(g) = Len(ref) /\ \A k \in 1..Len(ref) : LimbClose(g[k], ref[k], tol)
=============================================================================
