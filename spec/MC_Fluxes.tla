------------------------------ MODULE MC_Fluxes ------------------------------
(* every pair of exact-point states on a grid: consistency, mirror symmetry and upwinding of the transcribed fluxes *)
EXTENDS Fluxes
CONSTANTS Rhos, Us, Cs, Gammas, Gs, FluxDeviations
VARIABLES model, gam, L, Rr
vars == <<model, gam, L, Rr>>
None == [rho |-> Zero, u |-> Zero, c |-> Zero]
RhosQ == {<<1, 4>>, <<1, 1>>, <<4, 1>>}
UsQ == {<<-3, 1>>, <<-1, 1>>, <<-1, 2>>, <<0, 1>>, <<1, 2>>, <<2, 1>>, <<3, 1>>}
CsQ == {<<1, 2>>, <<1, 1>>, <<3, 2>>}
GammasQ == {<<7, 5>>, <<5, 3>>}
GsQ == {<<1, 1>>, <<8, 1>>}
RhosF == {<<1, 4>>, <<1, 1>>, <<4, 1>>, <<9, 1>>, <<16, 1>>}
UsF == {<<-3, 1>>, <<-2, 1>>, <<-1, 1>>, <<-1, 2>>, <<0, 1>>, <<1, 2>>, <<1, 1>>, <<2, 1>>, <<3, 1>>}
CsF == {<<1, 2>>, <<1, 1>>, <<3, 2>>, <<2, 1>>}
GammasF == {<<7, 5>>, <<5, 3>>, <<2, 1>>}
GsF == {<<1, 1>>, <<8, 1>>, <<981, 100>>}
RhoSet == {Q(p[1], p[2]) : p \in Rhos}
USet == {Q(p[1], p[2]) : p \in Us}
CSet == {Q(p[1], p[2]) : p \in Cs}
EuStates == [rho : RhoSet, u : USet, c : CSet]
SwStates == [rho : {One}, u : USet, c : CSet]
(* TLC integers are 32 bit: the HLL-type fluxes (Roe averages, contact speed) are evaluated on a sub-grid of small numbers *)
HllStates == [rho : {One, R(4)}, u : {R(-2), R(-1), Zero, One, R(2)}, c : {Half, One}]
StatesOf(m) == CASE m = "euler" -> EuStates [] m = "eulerhll" -> HllStates [] OTHER -> SwStates
Init == /\ model \in {"euler", "eulerhll", "sw", "scalar"}
        /\ gam \in (IF model \in {"euler", "eulerhll"} THEN {Q(p[1], p[2]) : p \in Gammas} ELSE IF model = "sw" THEN {Q(p[1], p[2]) : p \in Gs} ELSE {One})
        /\ L \in StatesOf(model)
        /\ Rr = None
Pick == /\ Rr = None
        /\ Rr' \in StatesOf(model)
        /\ UNCHANGED <<model, gam, L>>
Spec == Init /\ [][Pick]_vars
Has == Rr # None
sw(W) == [c |-> W.c, u |-> W.u]

(* (i) consistency F(W, W) = f(W): on the configuration states (W = L) *)
Consistency == (~Has) =>
  CASE model = "euler" -> /\ EuCentered(gam, L, L) = EuPhys(gam, L) /\ EuCenteredMassflow(gam, L, L) = EuPhys(gam, L)
                          /\ EuHlle(gam, L, L) = EuPhys(gam, L) /\ EuHllc(gam, L, L) = EuPhys(gam, L)
    [] model = "eulerhll" -> EuHlle(gam, L, L) = EuPhys(gam, L) /\ EuHllc(gam, L, L) = EuPhys(gam, L)
    [] model = "sw" -> /\ SwCentered(gam, sw(L), sw(L)) = SwPhys(gam, sw(L)) /\ SwHll(gam, sw(L), sw(L)) = SwPhys(gam, sw(L))
                       /\ SwRusanov(gam, sw(L), sw(L), FluxDeviations) = SwPhys(gam, sw(L))
    [] model = "scalar" -> /\ ConvFlux(L.u, L.c, L.c) = ConvPhys(L.u, L.c)          \* speed u (either sign), value c
                           /\ BurgersFlux(L.u, L.u, FluxDeviations) = BurgersPhys(L.u)

(* (ii) reflection: F(mirror R, mirror L) = parity . F(L, R) *)
Mirror == Has =>
  CASE model = "euler" ->
         /\ EuCentered(gam, EuMirror(Rr), EuMirror(L)) = MirrorOf(EuCentered(gam, L, Rr), EuParity)
         /\ EuCenteredMassflow(gam, EuMirror(Rr), EuMirror(L)) = MirrorOf(EuCenteredMassflow(gam, L, Rr), EuParity)
    [] model = "eulerhll" ->
         (HllOK(gam, L, Rr) => /\ EuHlle(gam, EuMirror(Rr), EuMirror(L)) = MirrorOf(EuHlle(gam, L, Rr), EuParity)
                               /\ EuHllc(gam, EuMirror(Rr), EuMirror(L)) = MirrorOf(EuHllc(gam, L, Rr), EuParity))
    [] model = "sw" ->
         /\ SwCentered(gam, SwMirror(sw(Rr)), SwMirror(sw(L))) = MirrorOf(SwCentered(gam, sw(L), sw(Rr)), SwParity)
         /\ SwHll(gam, SwMirror(sw(Rr)), SwMirror(sw(L))) = MirrorOf(SwHll(gam, sw(L), sw(Rr)), SwParity)
         /\ SwRusanov(gam, SwMirror(sw(Rr)), SwMirror(sw(L)), FluxDeviations) = MirrorOf(SwRusanov(gam, sw(L), sw(Rr), FluxDeviations), SwParity)
    [] model = "scalar" ->
         \* convection: speed a = L.u, values L.c, Rr.c; mirrored problem has speed -a and swapped values; flux (even) changes sign
         /\ ConvFlux(RNeg(L.u), Rr.c, L.c) = MirrorOf(ConvFlux(L.u, L.c, Rr.c), <<"even">>)
         \* Burgers velocity is odd: its flux u^2/2 is unchanged
         /\ (RSign(RAdd(L.u, Rr.u)) # 0 =>
               BurgersFlux(RNeg(Rr.u), RNeg(L.u), FluxDeviations) = BurgersFlux(L.u, Rr.u, FluxDeviations))

(* (iii) upwinding in supercritical regimes *)
Upwind == Has =>
  CASE model = "euler" -> TRUE
    [] model = "eulerhll" ->
         /\ (SuperRight(gam, L, Rr) /\ HllOK(gam, L, Rr)) => EuHlle(gam, L, Rr) = EuPhys(gam, L) /\ EuHllc(gam, L, Rr) = EuPhys(gam, L)
         /\ (SuperLeft(gam, L, Rr) /\ HllOK(gam, L, Rr)) => EuHlle(gam, L, Rr) = EuPhys(gam, Rr) /\ EuHllc(gam, L, Rr) = EuPhys(gam, Rr)
    [] model = "sw" ->
         /\ SwSuperRight(sw(L), sw(Rr)) => SwHll(gam, sw(L), sw(Rr)) = SwPhys(gam, sw(L))
         /\ SwSuperLeft(sw(L), sw(Rr)) => SwHll(gam, sw(L), sw(Rr)) = SwPhys(gam, sw(Rr))
    [] model = "scalar" ->
         /\ ConvFlux(L.u, L.c, Rr.c) = ConvPhys(L.u, IF RSign(L.u) >= 0 THEN L.c ELSE Rr.c)
         /\ (RSign(L.u) > 0 /\ RSign(Rr.u) > 0) => BurgersFlux(L.u, Rr.u, FluxDeviations) = BurgersPhys(L.u)
         /\ (RSign(L.u) < 0 /\ RSign(Rr.u) < 0) => BurgersFlux(L.u, Rr.u, FluxDeviations) = BurgersPhys(Rr.u)
(* C18: eigen-relations of the physical flux Jacobian at every grid state *)
Eigen == (~Has) =>
  CASE model = "euler" -> EuEigen(gam, L, 1) /\ EuEigen(gam, L, -1) /\ EuEigen0(gam, L)
                          /\ SpectralRadius(L) = RMax(RAbs(L.u), RMax(RAbs(RAdd(L.u, L.c)), RAbs(RSub(L.u, L.c))))
    [] model = "sw" -> SwEigen(gam, sw(L), 1) /\ SwEigen(gam, sw(L), -1)
    [] OTHER -> TRUE
(* non vacuity witnesses: how many pairs were exact points (reported through TLC's coverage of this definition) *)
ExactPair == Has /\ model = "eulerhll" /\ HllOK(gam, L, Rr)
=============================================================================
