"""./check entry point"""
import importlib, os, sys, traceback
from . import core


JUDGES = ["Judge_Driver", "Judge_RK", "Judge_Implicit", "Judge_Limiters", "Judge_Mesh", "Judge_FVM1D", "Judge_FVM2D", "Judge_Flux",
          "Judge_Scalar", "Judge_Positive", "Judge_Model"]


def replay_file(prop, path):
    """re-judge the observation stored in a replay file: TLC evaluates the clauses again on exactly that record.
    (The record is what the real code did on the case; to regenerate it from the code, rerun the check with the seed
    recorded in the evidence file.)"""
    import json
    d = json.load(open(path))
    case = d["case"]
    rec = case.get("record", case)
    if isinstance(rec, dict) and "kind" not in rec and "call" not in rec:
        rec = case
    rec = dict(rec)
    rec["id"] = 1
    wd = core.scratch("replay")
    failed = None
    pref = {"C07": "Judge_Driver", "C08": "Judge_Driver", "C05": "Judge_RK", "C06": "Judge_Implicit", "C12": "Judge_Limiters",
            "C20": "Judge_Mesh", "C02": "Judge_Flux", "C09": "Judge_Scalar", "C10": "Judge_Positive", "C16": "Judge_Model",
            "C17": "Judge_Model", "C18": "Judge_Model"}.get(prop)
    order = ([pref] if pref else []) + [j for j in JUDGES if j != pref]
    if isinstance(rec, dict) and rec.get("kind") in ("rhs2", "shift2", "rel2", "stencil2", "tok2"):
        order = ["Judge_FVM2D"] + order
    for jm in order:
        try:
            bad, _ = core.judge(jm, [rec], wd, name="replay_" + jm)
        except core.MachineryError:
            continue            # not a record of this judge
        if any(b["clause"] == "unknown_record" for b in bad):
            continue
        failed = [b["clause"] for b in bad]
        print("judged by %s: failed clauses %s" % (jm, failed))
        break
    if failed is None:
        print("MACHINERY-FAILURE property=%s no judge accepts the record in %s" % (prop, path))
        return 2
    if any(c.startswith(prop) for c in failed):
        print("VIOLATION property=%s replay=%s clause=%s" % (prop, path, ",".join(c for c in failed if c.startswith(prop))))
        return 1
    return 0


def main(argv):
    if not argv:
        print("usage: check <Cxx> [--tier quick|thorough] [--replay file] | --selftest")
        return 2
    if argv[0] == "--selftest":
        from . import selftest
        return selftest.run()
    prop = argv[0]
    tier = os.environ.get("VERIF_TIER", "quick")
    replay = None
    i = 1
    while i < len(argv):
        if argv[i] == "--tier":
            tier = argv[i + 1]; i += 2
        elif argv[i] == "--replay":
            replay = argv[i + 1]; i += 2
        else:
            i += 1
    os.environ["VERIF_TIER"] = tier
    # watchdog: a check that does not end (a changed tree may loop for ever inside flowdyn, e.g. a time step that collapses to 0)
    # is a machinery failure with a message and a stack, not a silent hang; the limits are far above any run on the unchanged tree
    import faulthandler, threading
    limit = float(os.environ.get("VERIF_WATCHDOG_S", 3600 if tier == "quick" else 6 * 3600))

    def _expired():
        faulthandler.dump_traceback(all_threads=True)
        print("MACHINERY-FAILURE property=%s the check did not end within %.0f s (watchdog)" % (prop, limit), flush=True)
        os._exit(2)
    wd = threading.Timer(limit, _expired)
    wd.daemon = True
    wd.start()
    try:
        if replay:
            return replay_file(prop, replay)
        mod = importlib.import_module("harness." + prop.lower())
        return mod.run(tier)
    except core.MachineryError as ex:
        print("MACHINERY-FAILURE property=%s %s" % (prop, ex))
        return 2
    except Exception:
        traceback.print_exc()
        print("MACHINERY-FAILURE property=%s (exception in the harness)" % prop)
        return 2


if __name__ == "__main__":
    sys.exit(main(sys.argv[1:]))
