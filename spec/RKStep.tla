------------------------------- MODULE RKStep -------------------------------
(***************************************************************************)
(* The three explicit `step` implementations of flowdyn.integration as      *)
(* stage machines over FORMAL states: a state is y + sum_j a_j k_j where    *)
(* k_j is the (uninterpreted) value the right-hand side returned at its     *)
(* j-th call -- so whatever holds here holds for every right-hand side.     *)
(*                                                                         *)
(*   Butcher    rkmodel.step      (rk2_heun, rk3_heun, rk3ssp, rk4)         *)
(*   Midpoint   rk2.step                                                    *)
(*   HuHussaini LSrkmodelHH.step  (lsrk4; lsrk25bb/26bb have the same shape)*)
(*   Euler      explicit.step                                               *)
(*                                                                         *)
(* One action per calcrhs (the RHS presentation: what the code-side proxy   *)
(* records) and one per add_res (linear combination + time advance).        *)
(***************************************************************************)
EXTENDS RK

CONSTANTS Methods,       \* subset of DOMAIN CodeTableaux
          Dts,           \* set of rational step sizes <<n, d>>
          StepDeviations \* {} or {"LsrkStageTimeSquared"}

VARIABLES meth, h, pc, stage,
          fld,     \* the field given to step: [t, y, k]   (k: tuple of coefficients of k_1..k_s, already times dt)
          pf,      \* pfield
          nrhs,    \* number of RHS evaluations so far
          pres     \* presentations: <<[t, y, k]>>  (history, what the proxy records)

svars == <<meth, h, pc, stage, fld, pf, nrhs, pres>>

Tab == CodeTableaux[meth]
NS == S(Tab)
ZeroK == [j \in 1..NS |-> Zero]
Shape == CASE meth \in {"explicit", "forwardeuler"} -> "euler"
           [] meth = "rk2" -> "midpoint"
           [] meth \in {"lsrk4"} -> "huhussaini"
           [] OTHER -> "butcher"

(* add_res(f, dt*coef applied to residual `res` (a k-vector), time advance dt*sub) *)
AddRes(f, res, sub) == [t |-> RAdd(f.t, RMul(h, sub)), y |-> f.y,
                        k |-> [j \in 1..NS |-> RAdd(f.k[j], RMul(h, res[j]))]]
Unit(j) == [i \in 1..NS |-> IF i = j THEN One ELSE Zero]

SInit == /\ meth \in Methods /\ h \in Dts
         /\ fld = [t |-> Zero, y |-> One, k |-> ZeroK]
         /\ pf = [t |-> Zero, y |-> One, k |-> ZeroK]        \* pfield = field.copy()
         /\ pc = "rhs" /\ stage = 1 /\ nrhs = 0 /\ pres = <<>>

(* calcrhs(pfield): the RHS sees (pf.t, pf); its value is the fresh symbol k_{nrhs+1} *)
CalcRhs == /\ pc = "rhs"
           /\ nrhs' = nrhs + 1
           /\ pres' = Append(pres, pf)
           /\ pc' = "add"
           /\ UNCHANGED <<meth, h, stage, fld, pf>>

(* the combination + add_res that follows the stage-th RHS evaluation *)
Add == /\ pc = "add"
       /\ CASE Shape = "euler" ->
                 /\ fld' = AddRes(fld, Unit(1), One) /\ pf' = pf /\ pc' = "done"
            [] Shape = "midpoint" ->
                 IF stage = 1
                 THEN /\ pf' = AddRes(pf, VScale(Half, Unit(1)), Half)       \* add_res(pfield, dt/2): min(dt/2)*1
                      /\ fld' = fld /\ pc' = "rhs"
                 ELSE /\ fld' = AddRes(fld, Unit(2), One) /\ pf' = pf /\ pc' = "done"
            [] Shape = "butcher" ->
                 \* pfield = field.copy(); residual = sum_i pcoef[i]*prhs[i]; add_res(pfield, dt, subtimecoef[s])
                 LET row == IF stage < NS THEN Tab.A[stage + 1] ELSE Tab.b
                     sub == RSum(row)
                 IN /\ pf' = AddRes(fld, row, sub)
                    /\ IF stage = NS THEN fld' = pf' /\ pc' = "done" ELSE fld' = fld /\ pc' = "rhs"
            [] Shape = "huhussaini" ->
                 \* pfield = field.copy(); add_res(pfield, dt*beta)  [pinned code: add_res(pfield, dt*beta, beta)]
                 LET beta == IF stage < NS THEN Tab.A[stage + 1][stage] ELSE Tab.b[stage]
                     sub == IF "LsrkStageTimeSquared" \in StepDeviations THEN RMul(beta, beta) ELSE beta
                 IN /\ pf' = AddRes(fld, VScale(beta, Unit(stage)), sub)
                    /\ IF stage = NS THEN fld' = pf' /\ pc' = "done" ELSE fld' = fld /\ pc' = "rhs"
       /\ stage' = stage + 1
       /\ UNCHANGED <<meth, h, nrhs, pres>>

SNext == CalcRhs \/ Add
SSpec == SInit /\ [][SNext]_svars

(* ---- what the execution realises: coefficients divided by dt *)
Unscale(f) == [t |-> RDiv(f.t, h), y |-> f.y, k |-> [j \in 1..NS |-> RDiv(f.k[j], h)]]
Realised == [A |-> [i \in 1..NS |-> Unscale(pres[i]).k], b |-> Unscale(fld).k,
             c |-> [i \in 1..NS |-> Unscale(pres[i]).t]]

(* ---- invariants *)
StageTimeIsAbscissa == \A i \in 1..Len(pres) : Unscale(pres[i]).t = RSum(Unscale(pres[i]).k)
YCoefficientOne == fld.y = One /\ pf.y = One
AtEnd == pc = "done" =>
           /\ nrhs = NS
           /\ Realised.A = Tab.A /\ Realised.b = Tab.b             \* the stage machine realises the tableau
           /\ Unscale(fld).t = One                                 \* time advanced by exactly dt
           /\ Explicit(Realised) /\ WeightsSumToOne(Realised) /\ AbscissaeAreRowSums(Realised)
           /\ OrderAtLeast(Realised, Nominal[meth])
           /\ (meth \in MustBeSSP => SSP1(Realised))
           /\ (meth = "lsrk4" => TaylorTo(Realised, 4))
=============================================================================
