"""C06 implicit integrators: Implicit.tla model checked exactly (theta/xi step with exact linear solve, FD Jacobian,
gear start-up, defining relations); the real integrators are bound on operators taken from the code's own rhs."""
import math, os, random, sys
from fractions import Fraction
import numpy as np
from . import core, fd
from .core import Report

SCHEMES = {"implicit": "implicit", "backwardeuler": "implicit", "trapezoidal": "cn", "cranknicolson": "cn", "gear": "gear"}


def operator_matrix(rhs, f0, n):
    """the affine space operator R(Q) = A Q + b read from the code's own rhs: b = R(0), column j of A = R(e_j) - b
    (b is non-zero with imposed boundary states)"""
    A = np.zeros((n, n))
    b = np.array(rhs.rhs(fd.field.fdata(f0.model, f0.mesh, [np.zeros(n)]))[0], dtype=float).copy()
    for j in range(n):
        e = np.zeros(n)
        e[j] = 1.0
        f = fd.field.fdata(f0.model, f0.mesh, [e])
        A[:, j] = rhs.rhs(f)[0] - b
    return A, b


def relres(M1, Qn, M2, Qo, A, dt, src=0.0):
    r = M1 @ Qn - M2 @ Qo - src
    scale = (np.max(np.abs(Qo)) + np.max(np.abs(src))) * (1.0 + dt * np.max(np.sum(np.abs(A), axis=1)))
    return core.ulps(float(np.max(np.abs(r))), 0.0, float(scale) if scale > 0 else 1.0)


def lin_cases(rep, rnd, tier):
    recs = []
    n_cases = 60 if tier == "quick" else 600
    for c in range(n_cases):
        n = rnd.choice([3, 4, 5, 8, 12])
        mk = rnd.choice(["uni", "refined", "morphed", "micro"])
        if mk == "micro":
            # micrometre-scale domain, sound-speed-scale velocity: steps of 1e-10 (every dt is admissible, at any scale)
            n = max(n, 4)
            m = fd.mesh.refinedmesh(ncell=n, length=1e-6, ratio=rnd.choice([2.0, 0.5]))
        elif mk == "uni":
            m = fd.uniform(n, length=rnd.choice([1.0, 2.0, 0.5]))
        elif mk == "refined":
            n = max(n, 4)
            m = fd.mesh.refinedmesh(ncell=n, length=1.0, ratio=rnd.choice([2.0, 0.5, 3.0]))
        else:
            m = fd.mesh.morphedmesh(ncell=n, length=1.0, morph=lambda x: x + 0.3 * x * (1.0 - x))
        a = rnd.choice([1.0, -1.0, 2.0]) if mk != "micro" else rnd.choice([340.0, -340.0])
        model = fd.conv.model(a)
        rname = rnd.choice(fd.LINEAR_RECONS)
        # periodic, or imposed (dirichlet) states on both sides: the operator is then affine, R(Q) = A Q + b
        bctype = rnd.choice(["per", "dirichlet", "dirichlet"])
        if bctype == "per":
            rhs = fd.modeldisc.fvm(model, m, fd.recon(rname))
        else:
            rhs = fd.modeldisc.fvm(model, m, fd.recon(rname), bcL={"type": "dirichlet", "prim": [rnd.choice([2.0, -1.5, 0.5])]},
                                   bcR={"type": "dirichlet", "prim": [rnd.choice([1.0, -0.75, 3.0])]})
        q0 = np.array([rnd.uniform(-1, 1) for _ in range(n)])
        f0 = fd.field.fdata(model, m, [q0])
        A, bvec = operator_matrix(rhs, f0, n)
        cfl = rnd.choice([0.01, 0.1, 0.5, 1.0, 3.0, 10.0, 100.0])
        dtarr = np.asarray(rhs.calc_timestep(f0, cfl), dtype=float)
        dt = float(np.min(dtarr))
        # one case in three: the per-cell step array of the local-time-step directive. Each cell's equation then carries its own
        # step: with D = diag(dt) the steps solve (I - D A) Q+ = Q + D b etc., and the time advances by min(dt)
        local = (c % 3 == 2)
        Dm = np.diag(dtarr) if local else dt * np.eye(n)
        dtmax = float(np.max(dtarr)) if local else dt
        cn = rnd.choice(list(SCHEMES))
        solver = getattr(fd.tnum, cn)(m, rhs)
        I = np.eye(n)
        f = f0.copy()
        Qm = None
        nsteps = 3 if cn == "gear" else 2
        dt_base, dtarr_base = dt, dtarr
        for s in range(nsteps):
            # the steps of one integrator object need not be equal: the next one differs by a few 1e-6, the one after is a third
            # (gear's BDF2 recurrence is the constant-step one: its steps stay equal)
            fac = 1.0 if cn == "gear" else [1.0, 1.0 + 3e-6, 0.37][s % 3]
            dt, dtarr = dt_base * fac, dtarr_base * fac
            Dm = np.diag(dtarr) if local else dt * np.eye(n)
            dtmax = float(np.max(dtarr)) if local else dt
            Qo = f.data[0].copy()
            t_before = f.time
            if c % 2 == 1 and s > 0:
                # between two steps the user (or a residual monitor) evaluates the right-hand side ON THE SOLVER, at the current
                # state and at another one: the next step is the scheme's step all the same (scratch data are not history)
                solver.calcrhs(f.copy())
                if c % 4 == 3:
                    solver.calcrhs(f0.copy())
            # a scalar step is a scalar in any of its usual guises: Python float, numpy scalar, 0-d array, one-element array
            dt_arg = [dt, np.float64(dt), np.array(dt), np.array([dt]), float(dt)][c % 5]
            solver.step(f, dtarr.copy() if local else dt_arg)
            Qn = f.data[0].copy()
            sch = SCHEMES[cn]
            if sch == "implicit":
                rr = relres(I - Dm @ A, Qn, I, Qo, A, dtmax, src=Dm @ bvec)
                name = "implicit"
            elif sch == "cn" or (sch == "gear" and s == 0):
                rr = relres(I - 0.5 * Dm @ A, Qn, I + 0.5 * Dm @ A, Qo, A, dtmax, src=Dm @ bvec)
                name = "cn" if sch == "cn" else "gear_start"
            else:
                r = 3 * Qn - 4 * Qo + Qm - 2 * Dm @ (A @ Qn + bvec)
                scale = (max(np.max(np.abs(Qo)), np.max(np.abs(Qm))) + np.max(np.abs(bvec)) * dtmax) * (1.0 + dtmax * np.max(np.sum(np.abs(A), axis=1)))
                rr = core.ulps(float(np.max(np.abs(r))), 0.0, float(scale))
                name = "bdf2"
            rec = dict(kind="lin", scheme=name, relres=rr, tadv=core.ulps(f.time, t_before + dt, max(abs(f.time), dt)),
                       cls=cn, n=n, mesh=mk, recon=rname, cfl=cfl, a=a, step=s + 1, bc=bctype, dtlocal=1 if local else 0)
            recs.append(rec)
            rep.nontrivial.add(("lin", cn, n, mk, rname, cfl, a, bctype, local))
            Qm = Qo
        dt, dtarr = dt_base, dtarr_base
        # the same relations along the MAIN trajectory of solve(), observed through save times placed at the end of every step
        # (snapshots are taken between the steps: whatever they do must leave the recurrence of the full steps alone)
        if c % 4 == 1 and not local:
            solver2 = getattr(fd.tnum, cn)(m, rhs)
            try:
                mons = {"r": {"type": "residual", "frequency": 1}} if c % 8 == 1 else None       # a residual monitor at every step
                res = solver2.solve(f0.copy(), cfl, [dt, 2 * dt, 3 * dt], **({"monitors": mons} if mons else {}))
            except Exception as ex:
                recs.append(dict(kind="raised", what="%s: %s" % (type(ex).__name__, str(ex)[:100]), cls=cn, scheme="solve"))
                continue
            states = [f0] + list(res)
            for s in range(1, len(states)):
                Qo, Qn = states[s - 1].data[0], states[s].data[0]
                h = float(states[s].time - states[s - 1].time)
                if not h > 0:
                    continue
                sch = SCHEMES[cn]
                if sch == "implicit":
                    rr = relres(I - h * A, Qn, I, Qo, A, h, src=h * bvec)
                    name = "implicit"
                elif sch == "cn" or (sch == "gear" and s == 1):
                    rr = relres(I - 0.5 * h * A, Qn, I + 0.5 * h * A, Qo, A, h, src=h * bvec)
                    name = "cn" if sch == "cn" else "gear_start"
                else:
                    Qm2 = states[s - 2].data[0]
                    r = 3 * Qn - 4 * Qo + Qm2 - 2 * h * (A @ Qn + bvec)
                    scale = (max(np.max(np.abs(Qo)), np.max(np.abs(Qm2))) + np.max(np.abs(bvec)) * h) * (1.0 + h * np.max(np.sum(np.abs(A), axis=1)))
                    rr = core.ulps(float(np.max(np.abs(r))), 0.0, float(scale))
                    name = "bdf2"
                recs.append(dict(kind="lin", scheme=name, relres=rr, tadv=0, cls=cn, n=n, mesh=mk, recon=rname, cfl=cfl, a=a, step=s,
                                 bc=bctype, dtlocal=0, via="solve"))
                rep.nontrivial.add(("lin-solve", cn, n, mk, rname, cfl, a, bctype))
    return recs


def amp_cases(rep, tier):
    """scalar y' = z y through the driver-level recording discretisation (dyadic z, dt)"""
    from . import driver_obs as D
    recs = []
    zs = [-1.0, -0.5, -0.25, -2.0, -8.0, 0.25]
    dts = [0.25, 0.5, 1.0, 4.0] if tier == "quick" else [0.0625, 0.25, 0.5, 1.0, 2.0, 4.0, 16.0]
    for cn, sch in SCHEMES.items():
        for z in zs:
            for dt in dts:
                if 1 - z * dt == 0 or 1 - z * dt / 2 == 0 or 3 - 2 * z * dt == 0:
                    continue
                disc = D.RecDisc(1, profile="c4", rec=False)
                disc.z = np.array([z])
                solver = getattr(fd.tnum, cn)(D.FakeMesh(1), disc)
                f = fd.field.fdata(D.FakeModel(0), D.FakeMesh(1), [np.array([1.0])])
                solver.step(f, dt)
                obs = [float(f.data[0][0])]
                if sch == "gear":
                    solver.step(f, dt)
                    obs.append(float(f.data[0][0]))
                zz = Fraction(z) * Fraction(dt)
                g_imp = 1 / (1 - zz)
                g_cn = (1 + zz / 2) / (1 - zz / 2)
                g_gear2 = (4 * g_cn - 1) / (3 - 2 * zz)
                for k, o in enumerate(obs):
                    scheme = "implicit" if sch == "implicit" else ("cn" if (sch == "cn" or k == 0) else "gear2")
                    # the amplification factor the scheme defines, as an exact rational (TLC recomputes it from z and dt and
                    # requires equality: the definition is cross-checked) and the observed float's distance to it
                    exp_ = {"implicit": g_imp, "cn": g_cn, "gear2": g_gear2}[scheme]
                    if not core.fits(exp_):
                        continue
                    err = core.ulps(o, exp_, max(abs(float(exp_)), 1e-3)) if np.isfinite(o) else core.ULP_CAP
                    grow = 1 if (np.isfinite(o) and z <= 0 and abs(o) > 1.0 + 1e-9) else 0
                    recs.append(dict(kind="amp", scheme=scheme, z=core.rat(z), dt=core.rat(dt), amp=core.rat(exp_),
                                     amperr=err, grow=grow, cls=cn, observed=repr(o)))
                    rep.nontrivial.add(("amp", cn, z, dt, k))
    return recs


def grow_cases(rep, rnd, tier):
    recs = []
    for c in range(20 if tier == "quick" else 150):
        n = rnd.choice([4, 7, 16, 32])
        m = fd.uniform(n)
        model = fd.conv.model(rnd.choice([1.0, -1.0]))
        rhs = fd.modeldisc.fvm(model, m, fd.recon("extrapol1"))
        q0 = np.array([rnd.uniform(-1, 1) for _ in range(n)])
        if c % 3 == 0:
            q0 = np.where(np.arange(n) < n // 2, 1.0, 0.0)     # step
        f = fd.field.fdata(model, m, [q0])
        cfl = rnd.choice([0.5, 1.0, 5.0, 25.0, 100.0])
        cn = rnd.choice(["implicit", "cranknicolson", "backwardeuler", "trapezoidal"])
        solver = getattr(fd.tnum, cn)(m, rhs)
        dt = float(np.min(rhs.calc_timestep(f, cfl)))
        for s in range(3):
            n0 = float(np.linalg.norm(f.data[0]))
            solver.step(f, dt)
            n1 = float(np.linalg.norm(f.data[0]))
            g = core.ulps(max(n1 - n0, 0.0), 0.0, n0) if np.isfinite(n1) else core.ULP_CAP
            recs.append(dict(kind="grow", grow=g, cls=cn, n=n, cfl=cfl))
            rep.nontrivial.add(("grow", cn, n, cfl, c))
    return recs


def jac_cases(rep, rnd, tier):
    recs = []
    for c in range(24 if tier == "quick" else 200):
        n = rnd.choice([4, 6, 10])
        m = fd.uniform(n) if c % 2 == 0 else fd.mesh.refinedmesh(ncell=n, length=1.0, ratio=2.0)
        x = m.centers()
        which = rnd.choice(["burgers", "euler_hlle", "euler_hllc", "euler_centered", "sw_hll"])
        rname = rnd.choice(["extrapol1", "extrapol2", "k1/3"])
        ph = rnd.uniform(0, 6.28)
        if which == "burgers":
            model = fd.burgers.model()
            rhs = fd.modeldisc.fvm(model, m, fd.recon(rname))
            f = fd.field.fdata(model, m, [2.0 + 0.5 * np.sin(2 * np.pi * x + ph)])
        elif which == "sw_hll":
            model = fd.sw.shallowwater1d(g=rnd.choice([9.81, 1.0]))
            rhs = fd.modeldisc.fvm(model, m, fd.recon(rname), numflux="hll")
            h = 1.0 + 0.2 * np.sin(2 * np.pi * x + ph)
            f = fd.field.fdata(model, m, [h, h * (0.3 + 0.1 * np.cos(2 * np.pi * x))])
        else:
            model = fd.euler.euler1d(gamma=rnd.choice([1.4, 5.0 / 3.0]))
            rhs = fd.modeldisc.fvm(model, m, fd.recon(rname), numflux=which.split("_")[1])
            rho = 1.0 + 0.2 * np.sin(2 * np.pi * x + ph)
            u = rnd.choice([0.3, -0.4, 1.9]) + 0.1 * np.cos(2 * np.pi * x)
            p = 1.0 + 0.1 * np.sin(2 * np.pi * x + 1.0)
            f = rhs.fdata_fromprim([rho, u, p])
        solver = fd.tnum.implicit(m, rhs)
        J = np.array(solver.calc_jacobian(f), dtype=float)
        neq = f.neq
        # entrywise against difference quotients of the space operator at h = 1e-7 mean|q|. The code's Jacobian is a FORWARD
        # difference with the perturbation eps_q = sqrt(macheps) * mean|q| the property names: its legitimate error is
        # eps_q/2 |d2R/dq2| (truncation) + macheps |R| / eps_q (cancellation); both are measured here and allowed (x2 / x16), nothing
        # else is. Riemann fluxes are only piecewise smooth (min/max wave speeds): an entry is accepted when it agrees with the central,
        # the forward or the backward quotient, so a kink of the operator inside (x-h, x+h) -- where "the derivative" is one-sided --
        # raises no alarm (seen: a kink at relative distance 3e-6 made a central difference at h = 1e-5 wrong by 4e-5)
        R0 = [r.copy() for r in rhs.rhs(f)]
        rmax = max(float(np.max(np.abs(r))) for r in R0)
        u = float(np.spacing(1.0))
        cands = [np.zeros_like(J) for _ in range(3)]
        allows = [np.zeros_like(J) for _ in range(3)]

        def R_at(q, i, d):
            g = f.copy()
            g.data[q][i] += d
            return [r.copy() for r in rhs.rhs(g)]
        for i in range(n):
            for q in range(neq):
                mq = float(np.sum(np.abs(f.data[q])) / n) or 1.0
                h, h2 = 1e-7 * mq, 1e-4 * mq
                epsq = math.sqrt(u) * mq
                Rp, Rm, Rp2, Rm2 = R_at(q, i, h), R_at(q, i, -h), R_at(q, i, h2), R_at(q, i, -h2)
                for qq in range(neq):
                    col = i * neq + q
                    curv = np.abs(Rp2[qq] - 2 * R0[qq] + Rm2[qq]) / h2 ** 2
                    own = 2 * (0.5 * epsq * curv) + 16 * u * rmax / epsq + 8 * u * rmax / h
                    cands[0][qq::neq, col] = (Rp[qq] - Rm[qq]) / (2 * h)
                    cands[1][qq::neq, col] = (Rp[qq] - R0[qq]) / h
                    cands[2][qq::neq, col] = (R0[qq] - Rm[qq]) / h
                    allows[0][qq::neq, col] = own
                    allows[1][qq::neq, col] = own + h * curv
                    allows[2][qq::neq, col] = own + h * curv
        scale = float(np.max(np.abs(cands[0]))) if np.max(np.abs(cands[0])) > 0 else 1.0
        if np.all(np.isfinite(J)) and J.shape == cands[0].shape:
            exc = np.minimum.reduce([np.maximum(np.abs(J - D) - al - 1e-9 * scale, 0.0) for D, al in zip(cands, allows)])
            err = core.ulps(float(np.max(exc)), 0.0, scale)
        else:
            err = core.ULP_CAP
        recs.append(dict(kind="jac", jacerr=err, model=which, recon=rname, n=n))
        rep.nontrivial.add(("jac", which, rname, n, c))
    return recs


def run(tier):
    rep = Report("C06", tier)
    rep.rule = ("model: every Q in {-1,0,1}^N x operator x dt/dx x integrator on Implicit.tla (exact); code: random linear "
                "problems (real fvm1d + convection, operator read from the code's own rhs), scalar amplification factors on "
                "dyadic z*dt, norm growth, Jacobian-vector products; distinct = (kind, class, configuration)")
    rep.assumptions = ["TolSolver = 2^30 ulps (2.4e-7 relative) for relations that involve the linear solve / FD Jacobian",
                       "the operator matrix is read from the code's rhs on unit impulses (binds integrator to operator)",
                       "TLC integers are 32 bit: the exact model is bounded to N<=4, dt/dx in 1/4..10"]
    cfgs = ["MC_Implicit_q.cfg"] if tier == "quick" else ["MC_Implicit_f.cfg", "MC_Implicit_f2.cfg"]
    for cfg in cfgs:
        res = core.tlc("MC_Implicit", cfg, workers=8, coverage=(tier == "thorough"), timeout=2400)
        core.tlc_must_pass(res, "MC_Implicit " + cfg)
        rep.add_tlc("MC_Implicit/" + cfg, res)
    rep.exhaustive = True
    core.apalache_suite(rep, "Apa_Implicit", ["InvImplicitNoGrowth", "InvImplicitDamps", "InvCNNoGrowth", "InvCNUnitary", "InvCNGrowsRight"],
                        "model level, beyond the grid: Apa_Implicit.tla proves with Apalache/Z3 that 1/(1-z) and (1+z/2)/(1-z/2) do "
                        "not grow for ANY rational z with Re z <= 0 (strict damping / exact modulus on the imaginary axis)")
    rnd = random.Random(core.seed())
    recs = lin_cases(rep, rnd, tier) + amp_cases(rep, tier) + grow_cases(rep, rnd, tier) + jac_cases(rep, rnd, tier)
    for k, r in enumerate(recs):
        r["id"] = k + 1
    rep.evaluations = len(recs)
    for kind in ("lin", "amp", "grow", "jac"):
        rep.sample([r for r in recs if r["kind"] == kind][0], limit=8)
    wd = core.scratch("c06")
    bad, jr = core.judge("Judge_Implicit", recs, wd, unjudgeable="C06_unjudgeable")
    rep.add_tlc("Judge_Implicit", jr, counts_as_model=False)
    rep.traces = len(recs)
    byid = {r["id"]: r for r in recs}
    for b in bad:
        r = byid[b["id"]]
        sig = {"kind": r["kind"], "cls": r.get("cls", ""), "model": r.get("model", "")}
        rep.violation(b["clause"], sig, r)
    return rep.finish()


if __name__ == "__main__":
    sys.exit(run(os.environ.get("VERIF_TIER", "quick")))
