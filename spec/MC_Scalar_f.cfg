SPECIFICATION Spec
CONSTANTS
  Ns = {4}
  Vals <- ValsDef
  ReconsS = {"extrapol1", "muscl_minmod", "muscl_superbee", "muscl_vanleer", "muscl_vanalbada"}
  Integs = {"explicit", "rk2_heun", "rk3ssp"}
  Cfls <- CflsQ
  Steps = 1
  ScalarDeviations = {}
  Models = {"conv", "burgers"}
INVARIANT InvMax
INVARIANT InvTVD
INVARIANT InvMean
CHECK_DEADLOCK FALSE
