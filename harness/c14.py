"""C14 periodic seam / translation invariance: shift equivariance of the free-flux operators model checked (FVM1D, FVM2D);
the real operators with the generic table flux judged exactly; real models / fluxes / integrators judged on solves."""
import os, random, sys
from . import core, fd
from . import fvm1d_cases as K1, fvm2d_cases as K2
from .fvm_check import run_check


def sig_of(r):
    return {"kind": r["kind"], "recon": str(r.get("recon", "")), "model": r.get("model", ""), "integrator": r.get("integrator", "")}


def run(tier):
    rnd = random.Random(core.seed())
    recs1 = K1.shift_cases(rnd, tier)
    recs2 = K2.shift2d_cases(rnd, tier)
    from . import real_cases as RC
    toks1 = RC.shift_solve_cases_1d(rnd, tier)
    toks2 = RC.shift_solve_cases_2d(rnd, tier)
    assumptions = ["table-flux residuals are dyadic, so shifted residuals are compared exactly by TLC",
                   "real-flux solves are compared within TolRoundoff (explicit) / TolSolver (implicit: pivoting order changes with "
                   "the permutation); the bit-equality rate is reported, not required"]
    rule = ("model: all data x all shifts on small periodic grids (FVM1D/FVM2D, free flux); code: table-flux operator on N=1..16 "
            "(1D), nx,ny up to 12 (2D), every reconstruction, and real model/flux/integrator solves of rolled data")
    return run_check("C14", tier, rule, assumptions,
                     mc_runs=[("MC_FVM1D", "MC_FVM1D_shift.cfg", 16),
                              ("MC_FVM2D", "MC_FVM2D_shift.cfg" if tier == "quick" else "MC_FVM2D_shift_f.cfg", 16)],
                     groups=[("Judge_FVM1D", recs1 + toks1), ("Judge_FVM2D", recs2 + toks2)], prefixes=["C14"], sig_of=sig_of,
                     symbolic=("Apa_Recon", ["InvSeam", "InvSeamUniform"],
                               "model level, beyond the lattice: Apa_Recon.tla proves with Apalache/Z3 that the distance used for the "
                               "periodic seam gradient, xc[0] + length - xc[-1], is half the sum of the two end cells for EVERY mesh and "
                               "every origin, hence the interior centre distance on every uniform mesh (the seam gradient is an interior "
                               "gradient); the variant that assumes an origin at 0 is refuted"))


if __name__ == "__main__":
    sys.exit(run(os.environ.get("VERIF_TIER", "quick")))
