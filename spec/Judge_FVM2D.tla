---------------------------- MODULE Judge_FVM2D ----------------------------
(***************************************************************************)
(* Judge for the 2D cartesian operator (C01, C03, C11, C14, C15 on the real *)
(* fvm2dcart): exact observations with the generic table flux on dyadic     *)
(* data, and round-off tokens for real fluxes.                              *)
(***************************************************************************)
EXTENDS FVM2D, Json, IOUtils, SequencesExt
TolRoundoff == 4194304
Recs == ndJsonDeserialize(IOEnv.JUDGE_IN)
VARIABLES i, bad

BcOf(b) == [type |-> b.type, val |-> FromPair(b.val)]
Bcs(r) == [left |-> BcOf(r.bc.left), right |-> BcOf(r.bc.right), bottom |-> BcOf(r.bc.bottom), top |-> BcOf(r.bc.top)]
ReconOf(r) == IF r.recon = "e1" THEN <<"e1", Zero>> ELSE <<"k", FromPair(r.kappa)>>
IsConst(d) == \A c \in 1..Len(d) : d[c] = d[1]
Compat(b, c0) == b.type # "dirichlet" \/ b.val = c0

FailedRhs2(r) ==
  LET nx == r.nx ny == r.ny dx == FromPair(r.dx) dy == FromPair(r.dy)
      d == VecFrom(r.d) pL == VecFrom(r.pL) pR == VecFrom(r.pR) fl == VecFrom(r.fl) res == VecFrom(r.res)
      bc == Bcs(r)
      total == RMul(RMul(dx, dy), RSum(res))
      bx == RMul(dy, RSum([j \in 1..ny |-> RSub(fl[XF(nx, 0, j - 1)], fl[XF(nx, nx, j - 1)])]))
      by == RMul(dx, RSum([k \in 1..nx |-> RSub(fl[YF(nx, ny, k - 1, 0)], fl[YF(nx, ny, k - 1, ny)])]))
      allc == Compat(bc.left, d[1]) /\ Compat(bc.right, d[1]) /\ Compat(bc.bottom, d[1]) /\ Compat(bc.top, d[1])
  IN {c \in {"C01_operator2d", "C01_periodic2d", "C03_uniform2d", "C11_constant2d", "DRIFT_faces2d", "DRIFT_residual2d"} :
       ~ CASE c = "C01_operator2d" -> total = RAdd(bx, by)
           [] c = "C01_periodic2d" -> (bc.left.type = "per" => bx = Zero) /\ (bc.bottom.type = "per" => by = Zero)
           [] c = "C03_uniform2d"  -> (IsConst(d) /\ allc) => \A k \in 1..Len(res) : res[k] = Zero
           [] c = "C11_constant2d" -> (IsConst(d) /\ allc) => \A f \in 1..Len(pL) : pL[f] = d[1] /\ pR[f] = d[1]
           [] c = "DRIFT_faces2d"  -> LET fs == FaceStates2(nx, ny, d, bc, ReconOf(r)) IN fs[1] = pL /\ fs[2] = pR
           [] c = "DRIFT_residual2d" ->
                \A k \in 1..(nx * ny) : LET j == (k - 1) \div nx ii == (k - 1) % nx IN
                   res[k] = RAdd(RDiv(RSub(fl[XF(nx, ii, j)], fl[XF(nx, ii + 1, j)]), dx),
                                 RDiv(RSub(fl[YF(nx, ny, ii, j)], fl[YF(nx, ny, ii, j + 1)]), dy))}

FailedShift2(r) ==
  LET R0 == VecFrom(r.res0) IN
  IF \A k \in 1..Len(r.shifts) : VecFrom(r.shifts[k].res) = Roll2(r.nx, r.ny, R0, r.shifts[k].kx, r.shifts[k].ky)
  THEN {} ELSE {"C14_shift2d"}

(* relation records: the residual of the transformed problem against the transformed residual *)
FailedRel(r) ==
  LET R0 == VecFrom(r.res) R1 == VecFrom(r.res1) nx == r.nx ny == r.ny IN
  CASE r.rel = "transpose" -> IF R1 = Transpose(nx, ny, R0) THEN {} ELSE {"C15_transpose"}
    [] r.rel = "mirrorx"   -> IF R1 = MirrorX(nx, ny, R0) THEN {} ELSE {"C15_reflect_x"}
    [] r.rel = "mirrory"   -> IF R1 = [c \in 1..(nx * ny) |-> LET j == (c - 1) \div nx ii == (c - 1) % nx
                                                              IN R0[Cell(nx, ii, ny - 1 - j)]]
                              THEN {} ELSE {"C15_reflect_y"}
    [] r.rel = "rows"      -> \* 2D residual of y-invariant data = 1D residual of the row, every row
                              IF \A c \in 1..(nx * ny) : R0[c] = R1[((c - 1) % nx) + 1] THEN {} ELSE {"C15_rows"}
    [] r.rel = "cols"      -> IF \A c \in 1..(nx * ny) : R0[c] = R1[((c - 1) \div nx) + 1] THEN {} ELSE {"C15_rows"}

FailedStencil2(r) ==
  LET n == r.n st == KappaStencil(FromPair(r.k)) h == FromPair(r.h) a == FromPair(r.a)
      pos(c, j, m) == IF RSign(a) > 0 THEN ((((c + m - j) % n) + n) % n) = 0 ELSE ((((c - m - j) % n) + n) % n) = 0
      col(j) == [c \in 1..n |-> RMul(RDiv(RAbs(a), h), RSum([m \in 1..4 |-> IF pos(c, j, m - 3) THEN st[m - 3] ELSE Zero]))]
  IN IF \A j \in 1..n : VecFrom(r.cols[j]) = col(j) THEN {} ELSE {"C11_kappa_stencil2d"}

FailedTok2(r) ==
  {c \in {"C01_operator2d", "C03_uniform2d", "C14_shift2d", "C15_transpose", "C15_reflect_x", "C15_reflect_y", "C15_rows",
          "C15_transverse", "C01_wall2d", "C01_solve2d", "C03_solve2d"} :
     ~ CASE c = "C01_operator2d" -> r.cons <= TolRoundoff
         [] c = "C03_uniform2d" -> r.unif <= TolRoundoff
         [] c = "C14_shift2d" -> r.shift <= TolRoundoff
         [] c = "C15_transpose" -> r.transpose <= TolRoundoff
         [] c = "C15_reflect_x" -> r.mirx <= TolRoundoff
         [] c = "C15_reflect_y" -> r.miry <= TolRoundoff
         [] c = "C15_rows" -> r.rows <= TolRoundoff
         [] c = "C15_transverse" -> r.transverse = 0
         [] c = "C01_wall2d" -> r.wall <= TolRoundoff
         [] c = "C01_solve2d" -> r.solve <= TolRoundoff
         [] c = "C03_solve2d" -> r.unifsolve <= TolRoundoff}

Failed(r) == CASE r.kind = "rhs2" -> FailedRhs2(r) [] r.kind = "shift2" -> FailedShift2(r) [] r.kind = "rel2" -> FailedRel(r)
               [] r.kind = "stencil2" -> FailedStencil2(r) [] r.kind = "tok2" -> FailedTok2(r)
               [] r.kind = "raised" -> {"C01_raised", "C03_raised", "C11_raised", "C14_raised", "C15_raised"}
               [] OTHER -> {"unknown_record"}
Init == i = 0 /\ bad = <<>>
Step == /\ i < Len(Recs) /\ i' = i + 1
        /\ bad' = bad \o SetToSeq({[id |-> Recs[i'].id, clause |-> c] : c \in Failed(Recs[i'])})
Fin  == /\ i = Len(Recs) /\ ndJsonSerialize(IOEnv.JUDGE_OUT, bad) /\ PrintT(<<"JUDGED", i, Len(bad)>>)
        /\ i' = i + 1 /\ bad' = bad
Next == Step \/ Fin
Spec == Init /\ [][Next]_<<i, bad>>
=============================================================================
