SPECIFICATION Spec
CONSTANTS
  Vals <- ValsQ
  Times <- TimesQ
  MaxFld = 3
  MaxArr = 6
  MaxOps = 3
  FieldDeviations = {}
INVARIANT NoAlias
INVARIANT ListView
INVARIANT Export
PROPERTY WritesAreLocal
CHECK_DEADLOCK FALSE
