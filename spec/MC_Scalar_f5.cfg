SPECIFICATION Spec
CONSTANTS
  Ns = {5}
  Vals <- ValsQuick
  ReconsS = {"extrapol1", "muscl_minmod", "muscl_superbee"}
  Integs = {"explicit", "rk2_heun", "rk3ssp"}
  Cfls <- CflsQ
  Steps = 1
  ScalarDeviations = {}
  Models = {"conv", "burgers"}
INVARIANT InvMax
INVARIANT InvTVD
INVARIANT InvMean
CHECK_DEADLOCK FALSE
