SPECIFICATION ISpec
CONSTANTS
  Ns = {2, 3}
  DtOverDx <- HsTwo
  Operators = {"upwind", "central", "kappa13"}
  ImplKinds = {"implicit", "cranknicolson", "gear"}
  DtModes = {"global", "local"}
  MaxSteps = 2
  ImplDeviations = {}
INVARIANT DefiningRelation
INVARIANT TimeAdvances
INVARIANT Conserved
INVARIANT NoGrowth
INVARIANT JacobianExact
CHECK_DEADLOCK FALSE
