"""Case generators for the 1D space operator: records for spec/Judge_FVM1D.tla (shared by C01, C03, C11, C13, C14, C19)."""
import math, random
from fractions import Fraction
import numpy as np
from . import core, fd
from . import fvm_obs as O

F = Fraction
SPEC_RECONS = set(fd.ALL_RECONS)


def _period(m):
    return F(float(m.length))


def rhs_record(m, data, recon, bcl, bcr, flux, lin=None, source=None):
    """exact-regime record of one real rhs evaluation (None when some number does not fit TLC's integers)"""
    mm, R, pL, pR, fl, model = O.run_rhs_table(m, data, recon, bcl, bcr, flux, source=source)
    n = mm.ncell
    src = np.zeros(n)
    if source and source[0]:
        src = np.asarray(source[0](mm.centers(), [np.array(data, dtype=float)]), dtype=float)
    if not O.fits_all(mm.xf, data, pL, pR, fl, R, src):
        return None
    r = dict(kind="rhs", xf=O.rats(mm.xf), d=O.rats(data), pL=O.rats(pL), pR=O.rats(pR), fl=O.rats(fl), res=O.rats(R),
             src=O.rats(src), hassrc=1 if source and source[0] else 0, recon=recon, bcl=O.bc_json(bcl), bcr=O.bc_json(bcr),
             period=core.rat(_period(mm)), lin=0, alpha=[0, 1], beta=[0, 1], specrecon=1 if recon in SPEC_RECONS else 0, n=n)
    if lin is not None:
        r.update(lin=1, alpha=core.rat(F(lin[0])), beta=core.rat(F(lin[1])))
    return r


def pow2_mesh(rnd, n):
    w = [rnd.choice([0.25, 0.5, 1.0, 2.0]) for _ in range(n)]
    x0 = rnd.choice([0.0, -2.0, 0.5])
    return fd.mesh_from_faces(np.concatenate([[x0], x0 + np.cumsum(w)]))


def exact_rhs_cases(rnd, tier, want_sources=False):
    recs = []
    ncase = 120 if tier == "quick" else 1500
    sizes = [1, 2, 3, 4, 5, 8] if tier == "quick" else [1, 2, 3, 4, 5, 6, 8, 12, 16]
    for c in range(ncase):
        n = rnd.choice(sizes)
        flux = O.TableFlux(seed=rnd.randrange(10 ** 6))
        bcl, bcr = rnd.choice(O.BC_CHOICES)
        lin = None
        if c % 4 == 0:                      # non uniform power-of-two widths: first order only (gradients would round)
            m = pow2_mesh(rnd, n)
            recon = "extrapol1"
            data = O.dyadic_data(rnd, n)
        else:
            m, dx = O.exact_uniform_mesh(rnd, n)
            recon = rnd.choice(O.EXACT_RECONS)
            if c % 4 == 1:                  # linear profile, non periodic
                al, be = rnd.choice([0.0, 1.0, -0.5]), rnd.choice([1.0, -2.0, 0.5, 0.25])
                data = list(al + be * np.asarray(m.centers()))
                lin = (al, be)
                bcl, bcr = ("copy",), ("copy",)
            else:
                data = O.dyadic_data(rnd, n)
        source = None
        if want_sources and c % 3 == 0:
            source = [lambda x, q: 0.5 * q[0] + x]
        if bcl[0] == "dirichlet" and data and c % 5 == 0:       # compatible dirichlet for uniform data
            data = [bcl[1]] * n
            if bcr[0] == "dirichlet":
                bcr = ("dirichlet", bcl[1])
        try:
            r = rhs_record(m, data, recon, bcl, bcr, flux, lin=lin, source=source)
        except O.FlowdynRaised as ex:
            r = O.raised_record(ex, recon=recon, n=n, bcl=bcl[0], bcr=bcr[0])
        if r is not None:
            recs.append(r)
    return recs


def shift_cases(rnd, tier):
    recs = []
    sizes = [1, 2, 3, 4, 5, 7] if tier == "quick" else [1, 2, 3, 4, 5, 6, 7, 8, 11, 16]
    for n in sizes:
        for recon in fd.ALL_RECONS:
            for rep_ in range(1 if tier == "quick" else 3):
                flux = O.TableFlux(seed=rnd.randrange(10 ** 6))
                m, dx = O.exact_uniform_mesh(rnd, n)
                data = O.dyadic_data(rnd, n, rnd.choice(["rand", "step", "impulse", "saw"]))
                try:
                    _, R0, _, _, _, _ = O.run_rhs_table(m, data, recon, ("per",), ("per",), flux)
                    shifts = []
                    for k in range(1, max(n, 2)):
                        _, Rk, _, _, _, _ = O.run_rhs_table(m, list(np.roll(data, k)), recon, ("per",), ("per",), flux)
                        shifts.append(dict(k=k, res=O.rats(Rk)))
                    recs.append(dict(kind="shift", n=n, recon=recon, d=O.rats(data), res0=O.rats(R0), shifts=shifts, dx=core.rat(F(dx))))
                except O.FlowdynRaised as ex:
                    recs.append(O.raised_record(ex, recon=recon, n=n, bcl="per", bcr="per"))
    return recs


def mirror_cases(rnd, tier):
    recs = []
    ncase = 120 if tier == "quick" else 1200
    for c in range(ncase):
        n = rnd.choice([1, 2, 3, 4, 6, 9])
        recon = rnd.choice(fd.ALL_RECONS)
        m = pow2_mesh(rnd, n) if c % 2 else O.exact_uniform_mesh(rnd, n)[0]
        bcl, bcr = rnd.choice(O.BC_CHOICES)
        data = O.dyadic_data(rnd, n)
        flux = O.TableFlux(seed=rnd.randrange(10 ** 6))
        try:
            _, R, _, _, _, _ = O.run_rhs_table(m, data, recon, bcl, bcr, flux)
            xm = -np.asarray(m.xf, dtype=float)[::-1]
            mm = fd.mesh_from_faces(xm)
            _, Rm, _, _, _, _ = O.run_rhs_table(mm, data[::-1], recon, bcr, bcl, O.TableFlux(seed=0, mirror_of=flux))
        except O.FlowdynRaised as ex:
            recs.append(O.raised_record(ex, recon=recon, n=n, bcl=bcl[0], bcr=bcr[0]))
            continue
        if not O.fits_all(R, Rm):
            continue
        recs.append(dict(kind="mirror", n=n, recon=recon, bcl=bcl[0], bcr=bcr[0], res=O.rats(R), resm=O.rats(Rm),
                         xf=[repr(float(x)) for x in m.xf], d=[float(x) for x in data]))
    return recs


def stencil_cases(rnd, tier):
    recs = []
    sizes = [3, 4, 5, 8] if tier == "quick" else [1, 2, 3, 4, 5, 6, 7, 8, 12]
    for n in sizes:
        for recon, k in [("extrapol2", F(-1)), ("k-1", F(-1)), ("k0", F(0)), ("k1/2", F(1, 2)), ("k1/3", F(1, 3)), ("k1", F(1))]:
            for a in (1.0, -1.0, 2.0, -0.5):
                m, dx = O.exact_uniform_mesh(rnd, n)
                flux = O.TableFlux(seed=0, linear=a)
                cols = []
                ok = True
                raised = None
                for j in range(n):
                    e = [1.0 if i == j else 0.0 for i in range(n)]
                    try:
                        _, R, _, _, _, _ = O.run_rhs_table(m, e, recon, ("per",), ("per",), flux)
                    except O.FlowdynRaised as ex:
                        raised = ex
                        break
                    col = []
                    for v in R:
                        q = F(float(v)).limit_denominator(1000)
                        if abs(F(float(v)) - q) > 8 * F(1, 2 ** 52) * max(1, abs(q)):
                            ok = False
                        col.append(core.rat(q))
                    cols.append(col)
                if raised is not None:
                    recs.append(O.raised_record(raised, recon=recon, n=n, bcl="per", bcr="per"))
                    continue
                recs.append(dict(kind="stencil", n=n, recon=recon, k=core.rat(k), a=core.rat(F(a)), dx=core.rat(F(dx)), cols=cols,
                                 rationalised=1 if ok else 0))
    return recs


# ----------------------------------------------------------------------------- general regime: tokens
def random_mesh(rnd, n):
    kind = rnd.choice(["uni", "refined", "morphed", "faces", "tiny", "nearly_uniform"])
    if kind == "tiny" and n >= 3:
        # every monotone face distribution is a mesh: non-uniform meshes of microscopic and of astronomic extent
        L_ = rnd.choice([2e-7, 3e-9, 4e6])
        return fd.mesh.refinedmesh(ncell=n, length=L_, ratio=rnd.choice([2.0, 0.5, 3.0]))
    if kind == "nearly_uniform" and n >= 3:
        # ... and meshes that differ from a uniform one by a relative 1e-4 .. 1e-9 only
        eps = rnd.choice([1e-4, 2e-6, 2e-7, 1e-9])
        return fd.mesh.morphedmesh(ncell=n, length=1.0, morph=lambda x, e=eps: x + e * np.sin(2 * np.pi * x))
    if kind == "uni" or n < 3:
        return fd.uniform(n, length=rnd.choice([1.0, 3.7, 0.01]), x0=rnd.choice([0.0, -1.3]))
    if kind == "refined":
        return fd.mesh.refinedmesh(ncell=n, length=rnd.choice([1.0, 2.5]), ratio=rnd.choice([0.5, 2.0, 3.0, 7.3]),
                                   nratioa=rnd.choice([1, 2]), nratiob=rnd.choice([1, 3]))
    if kind == "morphed":
        return fd.mesh.morphedmesh(ncell=n, length=1.0, morph=rnd.choice([lambda x: x + 0.3 * x * (1 - x), lambda x: np.expm1(x), lambda x: x ** 2 + 0.1 * x]))
    w = np.array([10.0 ** rnd.uniform(-1.5, 0.5) for _ in range(n)])
    return fd.mesh_from_faces(np.concatenate([[0.0], np.cumsum(w)]))


def fsum(xs):
    return sum((F(float(x)) for x in xs), F(0))


def cons_token(m, R, fl, src=None):
    """defect of  sum vol*R = F_first - F_last + sum vol*S  in ulps of sum |F| (exact Fraction arithmetic)"""
    vol = np.asarray(m.vol(), dtype=float)
    if not (np.all(np.isfinite(R)) and np.all(np.isfinite(fl))):
        return core.ULP_CAP
    tot = sum((F(float(v)) * F(float(r)) for v, r in zip(vol, R)), F(0))
    want = F(float(fl[0])) - F(float(fl[-1]))
    if src is not None:
        want += sum((F(float(v)) * F(float(s)) for v, s in zip(vol, src)), F(0))
    scale = sum((abs(F(float(x))) for x in fl), F(0))
    if src is not None:
        scale += sum((abs(F(float(v)) * F(float(s))) for v, s in zip(vol, src)), F(0))
    if scale == 0:
        return 0 if tot == want else core.ULP_CAP
    return core.ulps(tot, want, scale)


def table_tok_cases(rnd, tier):
    """general meshes, every reconstruction, generic table flux: conservation, constants (bitwise), linear exactness"""
    recs = []
    ncase = 150 if tier == "quick" else 2000
    for c in range(ncase):
        n = rnd.choice([1, 2, 3, 5, 9, 20, 64])
        m = random_mesh(rnd, n)
        n = m.ncell
        recon = rnd.choice(fd.TOKEN_RECONS)
        bcl, bcr = rnd.choice(O.BC_CHOICES)
        mode = c % 3
        xc = np.asarray(m.centers())
        const_bad, linear = 0, 0
        if mode == 0:
            data = [rnd.uniform(-2, 2) for _ in range(n)]
        elif mode == 1:
            c0 = rnd.choice([0.0, 1.0, -3.25, 1e-3, 7e5])
            data = [c0] * n
            if bcl[0] == "dirichlet":
                bcl = ("dirichlet", c0)
            if bcr[0] == "dirichlet":
                bcr = ("dirichlet", c0)
        else:
            al, be = rnd.uniform(-1, 1), rnd.uniform(-2, 2)
            data = list(al + be * xc)
            bcl, bcr = ("copy",), ("copy",)
        flux = O.TableFlux(seed=rnd.randrange(10 ** 6))
        try:
            mm, R, pL, pR, fl, _ = O.run_rhs_table(m, data, recon, bcl, bcr, flux)
        except O.FlowdynRaised as ex:
            recs.append(O.raised_record(ex, recon=recon, n=n, bcl=bcl[0], bcr=bcr[0]))
            continue
        rec = dict(kind="tok", n=n, recon=recon, bcl=bcl[0], bcr=bcr[0], mode=mode, model="table", flux="table",
                   cons=cons_token(mm, R, fl), perflux=0 if (bcl[0] != "per" or fl[0] == fl[-1]) else core.ULP_CAP,
                   wall=0, unif=0, const=0, linear=0, shift=0, mirror=0, solve=0, implicit=0, scaling=0, unifsolve=0, scalero=0)
        if mode == 1:
            rec["const"] = int(np.sum(pL != data[0]) + np.sum(pR != data[0]))
            rec["unif"] = 0 if bool(np.all(R == 0.0)) else core.ULP_CAP
        if mode == 2 and recon != "extrapol1" and n >= 3:
            xf = np.asarray(mm.xf)
            sc = float(np.max(np.abs(data))) + abs(be) * float(xf[-1] - xf[0])
            worst = 0
            for k in range(1, n - 1):     # cells whose two gradients are interior (0-based cell k: faces k, k+1)
                worst = max(worst, core.ulps(pL[k + 1], al + be * xf[k + 1], sc), core.ulps(pR[k], al + be * xf[k], sc))
            rec["linear"] = worst
        recs.append(rec)
    return recs


def multi_component_cases(rnd, tier):
    """C11 on SYSTEMS: the reconstructions receive lists of several components (the Euler primitive variables, the shallow-water
    pair); face states are read at the numflux seam of the real operator (Recording wrapper); every component is judged on its
    own: constant -> bitwise the cell value at every face, linear -> the profile at the interior faces (round-off)"""
    recs = []
    ncase = 60 if tier == "quick" else 600
    for c in range(ncase):
        n = rnd.choice([3, 4, 7, 12])
        m = random_mesh(rnd, n)
        n = m.ncell
        recon = rnd.choice(fd.TOKEN_RECONS)
        system = ["euler", "sw"][c % 2]
        xc = np.asarray(m.centers(), dtype=float)
        xf = np.asarray(m.xf, dtype=float)
        span = float(xf[-1] - xf[0])
        ncomp = 3 if system == "euler" else 2
        mode = 1 + (c // 2) % 2           # 1 constant, 2 linear
        al = [rnd.uniform(1.0, 3.0) for _ in range(ncomp)]
        be = [0.0] * ncomp if mode == 1 else [rnd.uniform(-0.3, 0.3) / max(span, 1e-300) for _ in range(ncomp)]
        if system == "sw":
            model = O.Recording(fd.sw.shallowwater1d(g=1.0))
            flux, bc = "rusanov", "sym"
        else:
            model = O.Recording(fd.euler.euler1d(gamma=1.4))
            flux, bc = "hlle", "sym"
        prim = [al[q] + be[q] * (xc - xf[0]) for q in range(ncomp)]
        if system == "euler":
            prim[1] = prim[1] - 2.0        # a velocity of either sign
        try:
            disc = fd._real_modeldisc.fvm(model, m, fd.recon(recon), numflux=flux, bcL={"type": bc}, bcR={"type": bc})
            f = fd.field.fdata(model, m, model.prim2cons([np.array(p_, dtype=float) for p_ in prim]))
            disc.rhs(f)
            pL, pR, _ = model.calls[-1]
            back = model.cons2prim(f.data)
        except Exception as ex:
            recs.append(O.raised_record(ex, recon=recon, n=n, bcl=bc, bcr=bc))
            continue
        const_bad, worst = 0, 0
        for q in range(ncomp):
            cell = np.asarray(back[q], dtype=float)          # what the reconstruction was given (after the round trip)
            if mode == 1:
                # interior faces: both states are cell values of the neighbours, bitwise
                const_bad += int(np.sum(pL[q][1:] != cell)) + int(np.sum(pR[q][:-1] != cell))
            elif recon != "extrapol1" and n >= 3:
                if recon in ("muscl_vanalbada", "muscl_vanleer") and abs(be[q]) < 1e-3:
                    continue        # the smooth limiters return phi(a, a) = a within 1e-20 / a^2 only (C12): slopes of 1e-3 and more
                sc = float(np.max(np.abs(cell))) + abs(be[q]) * span
                a0 = (al[q] - (2.0 if (system == "euler" and q == 1) else 0.0))
                for k in range(1, n - 1):
                    worst = max(worst, core.ulps(pL[q][k + 1], a0 + be[q] * (xf[k + 1] - xf[0]), sc),
                                core.ulps(pR[q][k], a0 + be[q] * (xf[k] - xf[0]), sc))
        rec = dict(kind="tok", n=n, recon=recon, bcl=bc, bcr=bc, mode=mode, model=system, flux=flux, cons=0, perflux=0,
                   wall=0, unif=0, const=const_bad, linear=min(worst * 1, core.ULP_CAP), shift=0, mirror=0, solve=0, implicit=0, scaling=0,
                   unifsolve=0, scalero=0, components=ncomp)
        recs.append(rec)
    return recs


def direct_call_cases(rnd, tier):
    """C11 on the reconstructions as the PUBLIC FUNCTIONS they are: `scheme.interp_face(mesh, data, grad)` called by a user who
    computed the face gradients once (as `modeldisc.calc_grad` does) and hands the SAME mesh, data and gradient objects to a
    sequence of schemes and to the same scheme again (comparing schemes on one data set is what such code is written for).
    Every call of the sequence is judged on its own output: constant -> bitwise the cell value, linear -> the profile at the
    faces whose two gradients are interior.  A scheme that works on its arguments in place (seed C11h: the gradient array halved
    by `g = grad[i]; g /= 2`) is invisible through the operator, which rebuilds its gradients at every evaluation, and shows up
    here from the second call on."""
    recs = []
    ncase = 40 if tier == "quick" else 400
    for c in range(ncase):
        n = rnd.choice([4, 5, 8, 13])
        m = random_mesh(rnd, n)
        n = m.ncell
        xc = np.asarray(m.centers(), dtype=float)
        xf = np.asarray(m.xf, dtype=float)
        span = float(xf[-1] - xf[0])
        ncomp = 1 + c % 3
        mode = 1 + (c // 3) % 2           # 1 constant, 2 linear
        al = [rnd.uniform(-3.0, 3.0) for _ in range(ncomp)]
        be = [0.0] * ncomp if mode == 1 else [rnd.choice([-1, 1]) * rnd.uniform(0.05, 0.3) / max(span, 1e-300) for _ in range(ncomp)]
        data = [np.array(al[q] + be[q] * (xc - xf[0]), dtype=float) for q in range(ncomp)]
        grad = []
        for d in data:                    # modeldisc.fvm1d.calc_grad, verbatim; boundary gradients stay 0 (non periodic)
            g = np.zeros(n + 1)
            g[1:-1] = (d[1:] - d[0:-1]) / (xc[1:] - xc[0:-1])
            grad.append(g)
        names = [rnd.choice(fd.TOKEN_RECONS) for _ in range(3)]
        names.append(names[rnd.randrange(3)])          # ... and one of them once more
        for pos, recon in enumerate(names):
            try:
                pL, pR = fd.recon(recon).interp_face(m, data, grad)
            except Exception as ex:
                recs.append(O.raised_record(ex, recon=recon, n=n, bcl="direct", bcr="direct"))
                continue
            const_bad, worst = 0, 0
            for q in range(ncomp):
                cell = al[q] + be[q] * (xc - xf[0])            # recomputed, not the (possibly modified) argument
                if mode == 1:
                    const_bad += int(np.sum(pL[q][1:] != cell)) + int(np.sum(pR[q][:-1] != cell))
                elif recon != "extrapol1" and n >= 3:
                    if recon in ("muscl_vanalbada", "muscl_vanleer") and abs(be[q]) < 1e-3:
                        continue        # phi(a, a) = a within a relative 1e-20 / a^2 only (C12): slopes of 1e-3 and more, as above
                    sc = float(np.max(np.abs(cell))) + abs(be[q]) * span
                    for k in range(1, n - 1):
                        worst = max(worst, core.ulps(pL[q][k + 1], al[q] + be[q] * (xf[k + 1] - xf[0]), sc),
                                    core.ulps(pR[q][k], al[q] + be[q] * (xf[k] - xf[0]), sc))
            recs.append(dict(kind="tok", n=n, recon=recon, bcl="direct", bcr="direct", mode=mode, model="direct%d" % pos, flux="none",
                             cons=0, perflux=0, wall=0, unif=0, const=const_bad, linear=min(worst, core.ULP_CAP), shift=0, mirror=0,
                             solve=0, implicit=0, scaling=0, unifsolve=0, scalero=0, components=ncomp))
    return recs
