"""Observation of the real flowdyn driver (solve/restart/_solve) through its public protocol seams.

No source hook is used: the real integrator classes are handed a *recording discretisation* (the object on which
they call rhs / calc_timestep / all_L2average) and their public `step` method is observed through a subclass.
What the code did is projected onto the observation record of spec/Contract.tla (integers only).
"""
import copy, math, os, sys
from fractions import Fraction
import numpy as np

from . import core

sys.path.insert(0, core.REPO)
os.environ.setdefault("MPLBACKEND", "Agg")
import flowdyn.integration as tnum   # noqa: E402
import flowdyn.field as field        # noqa: E402

KIND_CLASSES = {
    "onestep": ["explicit", "forwardeuler", "rk2", "rk2_heun", "rk3_heun", "rk3ssp", "rk4",
                "lsrk25bb", "lsrk26bb", "lsrk4"],
    "implicit": ["implicit", "backwardeuler", "trapezoidal", "cranknicolson"],
    "gear": ["gear"],
}
ALL_CLASSES = [c for k in ("onestep", "implicit", "gear") for c in KIND_CLASSES[k]]
KIND_OF = {c: k for k, cs in KIND_CLASSES.items() for c in cs}
UNIT = 16.0    # the specification's time lattice: sixteenths


def dt_profile(name, t16):
    if name == "c4":
        return 4
    if name == "c3":
        return 3
    if name == "var":
        return 4 if t16 % 8 == 0 else 2
    return 4


try:
    import flowdyn.modelphy.base as _realbase
    import flowdyn.meshbase as _realmeshbase
    _RealModelBase, _RealMeshBase = _realbase.model, _realmeshbase.virtualmesh
except Exception:          # pragma: no cover
    _RealModelBase = _RealMeshBase = object


class FakeModel(_RealModelBase):
    """the smallest model object fdata / implicit integrators / monitors need (derived from flowdyn's own base model, so that it
    inherits whatever default the library adds to the protocol)"""

    def __init__(self, islinear=0):
        try:
            _RealModelBase.__init__(self, name="fake", neq=1)
        except Exception:
            pass
        self.neq = 1
        self.shape = [1]
        self.islinear = islinear
        self.source = None

    def nameddata(self, name, data):
        return data[0].copy()

    def list_var(self):
        return ["q"]

    def initdisc(self, mesh):
        return


class FakeMesh(_RealMeshBase):
    def __init__(self, ncell):
        try:
            _RealMeshBase.__init__(self, type="fake")
        except Exception:
            pass
        self.ncell = ncell
        self.length = float(ncell)
        self.xf = np.arange(ncell + 1, dtype=float)
        self.xc = 0.5 + np.arange(ncell, dtype=float)
        self._vol = np.array([1.0, 0.5, 2.0, 1.0, 0.25, 4.0][:ncell])

    def vol(self):
        return self._vol

    def centers(self):
        return self.xc

    def nbfaces(self):
        return self.ncell + 1

    def average(self, data):
        return np.average(data, weights=self._vol)


class RecDisc:
    """recording discretisation: dQ/dt = z * Q per cell (dyadic z), dt supplied by the scenario.

    log entries: ("ts", time, bits, min dt) at the TimeStep seam, ("rhs", time, bits) at every RHS presentation"""

    def __init__(self, ncell, profile=None, dtfun=None, rec=True, dtlocal_spread=False, rhs_mode="lin"):
        self.nelem = ncell
        self.z = np.array([-1.0, -0.5, 0.25, -0.75, 0.5, -0.125][:ncell])
        self.profile = profile
        self.dtfun = dtfun
        self.log = []
        self.rec = rec
        self.spread = dtlocal_spread
        self.rhs_mode = rhs_mode

    def clone_silent(self):
        d = RecDisc(self.nelem, self.profile, self.dtfun, rec=False, dtlocal_spread=self.spread,
                    rhs_mode=self.rhs_mode)
        d.tscale, d.z = getattr(self, "tscale", 1.0), self.z.copy()
        for k_ in ("model", "mesh"):
            if hasattr(self, k_):
                setattr(d, k_, getattr(self, k_))
        return d

    def rhs(self, f):
        if self.rec:
            self.log.append(("rhs", float(f.time), f.data[0].tobytes()))
        if self.rhs_mode == "one":
            return [np.ones(self.nelem)]
        return [self.z * f.data[0]]

    def _dt(self, f):
        if self.dtfun is not None:
            return float(self.dtfun(f))
        ts = getattr(self, "tscale", 1.0)          # the unit of time (a power of two): the same scenario in seconds or picoseconds
        t16 = f.time / ts * UNIT
        return dt_profile(self.profile, int(round(t16))) / UNIT * ts

    def calc_timestep(self, f, condition):
        d = self._dt(f) * condition
        arr = np.full(self.nelem, d)
        if self.spread:   # non uniform per-cell steps whose minimum is d (dyadic multiples)
            arr = d * np.array([2.0, 1.0, 4.0, 1.5, 8.0, 3.0][:self.nelem])
        if self.rec:
            self.log.append(("ts", float(f.time), f.data[0].tobytes(), float(np.min(arr)), arr.tobytes()))
        return arr

    def all_L2average(self, res):
        return float(np.sum(np.abs(res[0])))


def recording_class(cls, log):
    """subclass of a real integrator whose top-level step() calls are logged (begin/end)"""

    class Rec(cls):
        _vdepth = 0

        def step(self, f, dtloc):
            top = self._vdepth == 0
            self._vdepth += 1
            if top:
                log.append(("sb", float(f.time), f.data[0].tobytes(), float(np.min(dtloc)),
                            (np.zeros(f.data[0].shape[-1]) + np.asarray(dtloc, dtype=float)).tobytes()))
            try:
                return super().step(f, dtloc)
            finally:
                self._vdepth -= 1
                if top:
                    log.append(("se", float(f.time), f.data[0].tobytes()))

    Rec.__name__ = cls.__name__
    return Rec


class IdSpace:
    """hash-consing of exact bit patterns to small integers (bitwise equality <-> integer equality)"""

    def __init__(self):
        self.ids = {}

    def __call__(self, b):
        if b not in self.ids:
            self.ids[b] = len(self.ids) + 1
        return self.ids[b]


def isfinite_bytes(b):
    return bool(np.all(np.isfinite(np.frombuffer(b, dtype=float))))


def close(a, b, rtol):
    x = np.frombuffer(a, dtype=float)
    y = np.frombuffer(b, dtype=float)
    if x.shape != y.shape:
        return False
    if a == b:
        return True
    if not (np.all(np.isfinite(x)) and np.all(np.isfinite(y))):
        return False
    return bool(np.all(np.abs(x - y) <= rtol * np.maximum(1.0, np.maximum(np.abs(x), np.abs(y)))))


class Session:
    """one solver object on which a script of solve/restart calls is made; builds one observation per call"""

    def __init__(self, clsname, ncell=3, profile="c4", islinear=0, dtfun=None, ctor_monitors=None,
                 dtlocal_spread=False, rhs_mode="lin", q0=None, t0=0.0, tscale=1.0):
        self.clsname = clsname
        self.cls = getattr(tnum, clsname)
        self.model = FakeModel(islinear)
        self.mesh = FakeMesh(ncell)
        self.disc = RecDisc(ncell, profile, dtfun, dtlocal_spread=dtlocal_spread, rhs_mode=rhs_mode)
        self.disc.model, self.disc.mesh = self.model, self.mesh     # as flowdyn.modeldisc.base exposes them
        self.disc.tscale = self.tscale = tscale
        if tscale != 1.0:
            self.disc.z = self.disc.z / tscale       # dQ/dt = z Q keeps z dt (and so the data) the same in every unit of time
        self.log = self.disc.log
        self.Rec = recording_class(self.cls, self.log)
        kw = {}
        if ctor_monitors is not None:
            kw["monitors"] = ctor_monitors
        self.solver = self.Rec(self.mesh, self.disc, **kw)
        if q0 is None:
            q0 = np.array([1.0, 0.75, -0.5, 1.25, 2.0, -1.5][:ncell])
        self.f0 = field.fdata(self.model, self.mesh, [q0.copy()], t=t0)
        self.rtol = 1e-6 if KIND_OF[clsname] != "onestep" else 1e-12
        self.raised = None
        # integrators live among other integrators: another object of the same class, on another discretisation, is built
        # afterwards and does a one-iteration solve with the other directive and another CFL number
        try:
            dmesh = FakeMesh(2)
            ddisc = RecDisc(2, "c3", rec=False, dtlocal_spread=True)
            ddisc.model, ddisc.mesh = FakeModel(1 - islinear), dmesh
            decoy = self.cls(dmesh, ddisc)
            decoy.solve(field.fdata(ddisc.model, dmesh, [np.array([0.5, -2.0])], t=3.0), 0.37, stop={"maxit": 1},
                        directives={"dtlocal": True})
        except Exception:
            pass

    # -- reference semantics of "the ideal forward step": the integrator's own step on a fresh / copied object
    def _reference(self, op):
        if op == "solve":
            ref = self.cls(self.mesh, self.disc.clone_silent())
        else:
            saved_disc, saved_mon = self.solver.modeldisc, self.solver.monitors
            self.solver.modeldisc = None
            self.solver.monitors = {}
            qn = self.solver.__dict__.pop("Qn", None)
            try:
                try:
                    ref = copy.deepcopy(self.solver)
                except Exception:           # something on the solver object cannot be deep-copied: a shallow copy with its own
                    ref = copy.copy(self.solver)     # copies of the array-valued attributes is the next best reference
                    for k_, v_ in list(vars(ref).items()):
                        if isinstance(v_, (list, np.ndarray)):
                            try:
                                setattr(ref, k_, copy.deepcopy(v_))
                            except Exception:
                                pass
            finally:
                self.solver.modeldisc, self.solver.monitors = saved_disc, saved_mon
                if qn is not None:
                    self.solver.Qn = qn
            ref.__class__ = self.cls
            ref.modeldisc = self.disc.clone_silent()
        return ref

    _ncalls = 0

    def call(self, op, f, cfl=1.0, tsave=(), stop=None, monitors=None, directives=None, intent=None):
        """make one real call and return the raw observation (floats/bytes), to be ranked by project()"""
        ref = self._reference(op)
        # constructor-supplied monitors keep their output across calls: remember where this call starts in each of them
        ctor_base = {}
        for name, mv in (getattr(self.solver, "monitors", None) or {}).items():
            out = mv.get("output")
            ctor_base[name] = len(out._it) if out is not None else 0
        fb = (float(f.time), f.it, f.data[0].tobytes())
        start = len(self.log)
        kw = {}
        if monitors is not None:
            kw["monitors"] = monitors
        # the 'verbose' directive only prints: one call in three (of the whole process, deterministic) carries it, output discarded
        Session._ncalls += 1
        chatty = op in ("solve", "restart") and Session._ncalls % 3 == 0
        if chatty:
            directives = dict(directives or {}, verbose=True)
        if directives:
            kw["directives"] = directives
        # the caller's own object is passed through: a list, a tuple or a numpy array ("array/list of time to save")
        tsave_arg = tsave if isinstance(tsave, (list, tuple, np.ndarray)) else list(tsave)
        tsave = list(intent["tsave"]) if intent is not None else list(tsave)
        # what the caller asked for: `intent` when the script shares (possibly already written-to) objects between calls
        stop_given = dict(intent["stop"]) if intent is not None and intent.get("stop") is not None else (dict(stop) if stop is not None else None)
        if intent is not None and intent.get("stop", 0) is None:
            stop_given = None
        self.raised = None
        try:
            if chatty:
                import contextlib, io
                with contextlib.redirect_stdout(io.StringIO()):
                    res = getattr(self.solver, op)(f, cfl, tsave_arg, stop=stop, **kw)
            else:
                res = getattr(self.solver, op)(f, cfl, tsave_arg, stop=stop, **kw)
        except Exception as ex:     # an exception raised by flowdyn on an admissible call is an observation
            self.raised = type(ex).__name__ + ": " + str(ex)[:80]
            res = []
        ev = self.log[start:]
        self.last_events = ev
        dtlocal = bool(directives) and "dtlocal" in directives
        raw = dict(op=op, clsname=self.clsname, t0=fb[0], it0=fb[1], b0=fb[2], tsave=tsave,
                   tot=(stop_given or {}).get("tottime"), maxit=(stop_given or {}).get("maxit"),
                   caller=(float(f.time), f.it, f.data[0].tobytes()) == fb,
                   nit=self.solver.nit(), totnit=self.solver.totnit(), raised=self.raised,
                   res=[(float(r.time), r.it, r.data[0].tobytes()) for r in res], results=res,
                   cfl=float(cfl), dtlocal=dtlocal, ev=ev, freqs_arg=sorted(int(mv.get("frequency", 10)) for mv in (monitors or {}).values()))
        # trajectory: the states presented at the TimeStep seam
        ts = [e for e in ev if e[0] == "ts"]
        raw["traj"] = [(e[1], e[2], e[3], e[4]) for e in ts]
        steps = []
        cur = None
        for e in ev:
            if e[0] == "sb":
                cur = [e[1], e[2], e[3], None, None, e[4] if len(e) > 4 else None]
            elif e[0] == "se" and cur is not None:
                cur[3], cur[4] = e[1], e[2]
                steps.append(tuple(cur))
                cur = None
        raw["steps"] = steps
        raw["negsteps"] = sum(1 for s in steps if s[2] < 0)
        # the full steps of the run: of the steps taken from one and the same state, the last one (snapshots come first)
        main = [s_ for k_, s_ in enumerate(steps) if k_ == len(steps) - 1 or (steps[k_ + 1][0], steps[k_ + 1][1]) != (s_[0], s_[1])]
        raw["ts_fallback"] = False
        if op != "solve_legacy" and len(ts) != len(main) and all(s_[5] is not None for s_ in main):
            # the code did not ask calc_timestep once per iteration (a cache, say): that is its business as long as the steps are
            # right -- the trajectory is then read from the full steps themselves (their own length is the step that was offered)
            raw["traj"] = [(s_[0], s_[1], s_[2], s_[5]) for s_ in main]
            raw["ts_fallback"] = True
            raw["tfin"], raw["bfin"] = (main[-1][3], main[-1][4]) if main else (fb[0], fb[2])
        elif ts:
            # final state: end of the last step taken in the last iteration
            last_ts = max(k for k, e in enumerate(ev) if e[0] == "ts")
            ends = [e for e in ev[last_ts:] if e[0] == "se"]
            raw["tfin"], raw["bfin"] = (ends[-1][1], ends[-1][2]) if ends else (ts[-1][1], ts[-1][2])
        else:
            raw["tfin"], raw["bfin"] = fb[0], fb[2]
        # reference trajectory and ideal snapshots
        q = f.copy()
        pure = True
        cellsok = True
        refpts = []
        for n, (tn, bn, dtn, arrb) in enumerate(raw["traj"]):
            if not (q.data[0].tobytes() == bn and float(q.time) == tn):
                pure = False
                # resynchronise the reference on what the code did, so that later points are still judged
                q = field.fdata(self.model, self.mesh, [np.frombuffer(bn, dtype=float).copy()], t=tn)
            refpts.append((q.copy(), copy.deepcopy(ref)))
            before = q.data[0].copy()
            dtarr = np.frombuffer(arrb, dtype=float)
            try:
                ref.step(q, dtarr.copy() if dtlocal else dtn)
            except Exception:
                pass
            if self.disc.rhs_mode == "one" and self.clsname in ("explicit", "forwardeuler", "rk2", "rk2_heun"):
                # rhs == 1: the data increments are the step sizes themselves (C18 ii)
                inc = None
                nxt = raw["traj"][n + 1][1] if n + 1 < len(raw["traj"]) else raw["bfin"]
                inc = np.frombuffer(nxt, dtype=float) - before
                want = dtarr if dtlocal else np.full_like(dtarr, dtn)
                if not np.array_equal(inc, want):
                    cellsok = False
        refpts.append((q.copy(), copy.deepcopy(ref)))
        if not (q.data[0].tobytes() == raw["bfin"] and float(q.time) == raw["tfin"]):
            if raw["traj"]:
                pure = False
        raw["pure"] = pure
        raw["cellsok"] = cellsok
        # sources of every returned field
        srcs = []
        for (tr, itr, br) in raw["res"]:
            s = set()
            req = min(tsave, key=lambda x: abs(x - tr)) if tsave else tr
            npts = len(raw["traj"])
            for n in range(npts + 1):
                if n < npts:
                    tn, bn, dtn, _ = raw["traj"][n]
                else:
                    tn, bn, dtn = raw["tfin"], raw["bfin"], 0.0
                h = req - tn
                if h < -1e-9 * max(1.0, abs(tn)) or h > dtn * (1 + 1e-9) + 1e-12:
                    continue
                if h == 0 or n == npts:
                    if close(br, bn, self.rtol):
                        s.add(n + 1)
                    continue
                qn_, refn = refpts[n]
                q2 = field.fdata(self.model, self.mesh, [np.frombuffer(bn, dtype=float).copy()], t=tn)
                r2 = copy.deepcopy(refn)
                try:
                    r2.step(q2, h)
                    if close(br, q2.data[0].tobytes(), self.rtol):
                        s.add(n + 1)
                except Exception:
                    pass
            srcs.append(sorted(s))
        if op == "solve_legacy":
            # the older driver clips the MAIN step onto the save times: a result IS a trajectory point (same time, same bits)
            pts = [(tn, bn) for (tn, bn, _, _) in raw["traj"]] + [(raw["tfin"], raw["bfin"])]
            srcs = [sorted(n + 1 for n, (tn, bn) in enumerate(pts) if tn == tr and bn == br) for (tr, itr, br) in raw["res"]]
        raw["srcs"] = srcs
        # monitors
        raw["_mon_call"] = monitors
        raw["_ctor_base"] = ctor_base
        raw["_ctor_mons"] = {k: v for k, v in (getattr(self.solver, "monitors", None) or {}).items() if k in ctor_base}
        self.refresh_mons(raw)
        return raw, res

    def refresh_mons(self, raw):
        """(re)read the monitor outputs of a call: call-supplied monitors, and the entries the constructor-supplied ones
        gained since the call began.  Re-reading LATER (after other solver objects ran) shows outputs that were replaced or
        appended to by calls that had nothing to do with this solver"""
        mons = []
        for name, mv in (raw["_mon_call"] or {}).items():
            out = mv.get("output")
            if out is None:
                continue
            mons.append((mv.get("frequency", 10), list(out._it), list(out._time), list(out._value), mv.get("type", name)))
        for name, mv in raw["_ctor_mons"].items():
            if raw["_mon_call"] and name in raw["_mon_call"]:
                continue                       # a call-supplied monitor of the same name takes precedence
            out = mv.get("output")
            b = raw["_ctor_base"].get(name, 0)
            its = list(out._it)[b:] if out is not None else []
            tms = list(out._time)[b:] if out is not None else []
            vls = list(out._value)[b:] if out is not None else []
            mons.append((mv.get("frequency", 10), its, tms, vls, mv.get("type", name)))
        raw["mons"] = mons
        raw["freqs_arg"] = sorted(int(m[0]) for m in mons) if not raw.get("freqs_arg") else raw["freqs_arg"]


OPNAME = {"solve_legacy": "legacy"}       # code method -> operation name in Driver.tla


def changing_cfl_calls():
    """solve / restart / solve / restart on ONE solver object with a different CFL number each time, rhs == 1, non-uniform
    per-cell steps: yields (class, dtlocal, islinear, op, cfl, maxit, raw) with raw["cellsok"] cleared when the data increment
    of some cell is not nit x CFL x step x (its own factor with dtlocal)"""
    spread = np.array([2.0, 1.0, 4.0, 1.5])
    for cn in ("explicit", "rk2", "rk2_heun"):
        for mode in ("global", "local", "local-then-global", "global-then-local"):
            for islin in (0, 1):
                S = Session(cn, ncell=4, profile="c4", dtlocal_spread=True, rhs_mode="one", islinear=islin)
                prev = None
                for k, (op, cfl, nmax) in enumerate((("solve", 0.5, 4), ("restart", 1.0, 3), ("solve", 2.0, 2), ("restart", 0.25, 2))):
                    # the directive belongs to the call: given to one call, it does not reach the next
                    dtlocal = {"global": False, "local": True, "local-then-global": k % 2 == 0, "global-then-local": k % 2 == 1}[mode]
                    arg = S.f0 if op == "solve" else prev[-1]
                    raw, res = S.call(op, arg, cfl, [], {"maxit": nmax}, directives={"dtlocal": True} if dtlocal else None)
                    raw["rhs_mode"] = "one"
                    inc = np.frombuffer(raw["bfin"], dtype=float) - np.frombuffer(raw["b0"], dtype=float)
                    want = raw["nit"] * cfl * 0.25 * (spread if dtlocal else np.ones(4))
                    if raw["nit"] != nmax or not np.array_equal(inc, want):
                        raw["cellsok"] = False
                    yield (cn, dtlocal, islin, op, cfl, nmax, raw)
                    prev = res
                    if not res:
                        break
                else:
                    # ... and the older entry point on the same object: one global step for every cell there too
                    t_here = float(prev[-1].time)
                    raw, res = S.call("solve_legacy", prev[-1], 0.5, [t_here + 0.5, t_here + 1.0625], None)
                    raw["rhs_mode"] = "one"
                    inc = np.frombuffer(raw["bfin"], dtype=float) - np.frombuffer(raw["b0"], dtype=float)
                    # (the generic per-iteration comparison above assumes solve(): here the steps are clipped onto the save times)
                    raw["cellsok"] = bool(np.array_equal(inc, np.full(4, raw["tfin"] - raw["t0"])))
                    yield (cn, False, islin, "solve_legacy", 0.5, -1, raw)


def project(raws, rid):
    """rank all times of a family of raw observations and hash-cons the data; returns the JSON-able calls"""
    times = []
    for r in raws:
        times += [r["t0"], r["tfin"]] + list(r["tsave"]) + [t for (t, _, _, _) in r["traj"]]
        times += [Fraction(t) + Fraction(d) for (t, _, d, _) in r["traj"]]
        times += [t for (t, _, _) in r["res"]]
        if r["tot"] is not None:
            times.append(r["tot"])
        for (_, _, mt, _, _) in r["mons"]:
            times += mt
    times = [t for t in times if isinstance(t, Fraction) or math.isfinite(t)]
    rk, vs = core.ranks(times)
    near = core.near_pairs(vs)
    ids = IdSpace()
    R = lambda t: rk[Fraction(t)] if (isinstance(t, Fraction) or math.isfinite(t)) else 0   # noqa: E731
    calls = []
    for r in raws:
        npts = len(r["traj"])
        mon = []
        freqs = []
        for (f, its, mts, vals, typ) in r["mons"]:
            freqs.append(int(f))
            # value -> trajectory point whose state gives this monitor value
            for it_, t_, v_ in zip(its, mts, vals):
                src = 0
                for n in range(npts + 1):
                    tn, bn = (r["traj"][n][0], r["traj"][n][1]) if n < npts else (r["tfin"], r["bfin"])
                    if t_ == tn and monitor_value(typ, bn, r) == v_:
                        src = n + 1
                        break
                mon.append(dict(f=int(f), it=int(it_), t=R(t_), src=src))
        itstart = r["totnit"] - r["nit"]
        # only the entries appended during this call are judged (restart keeps earlier output on purpose)
        if r["op"] == "restart":
            mon = [m for m in mon if m["it"] >= itstart]
        calls.append(dict(
            op=OPNAME.get(r["op"], r["op"]), t0=R(r["t0"]), it0=int(r["it0"]), tsave=[R(t) for t in r["tsave"]],
            tot=R(r["tot"]) if r["tot"] is not None else -1,
            maxit=int(r["maxit"]) if r["maxit"] is not None else -1,
            freqs=sorted(set(freqs)), nit=int(r["nit"]), totnit=int(r["totnit"]), itstart=int(itstart),
            tfin=R(r["tfin"]), idfin=ids(r["bfin"]),
            traj=[dict(t=R(t), tend=R(Fraction(t) + Fraction(d)), id=ids(b)) for (t, b, d, _) in r["traj"]],
            res=[dict(t=R(t), it=int(it_), srcs=s, fin=isfinite_bytes(b), id=ids(b),
                      isfinal=(b == r["bfin"] and t == r["tfin"]))
                 for (t, it_, b), s in zip(r["res"], r["srcs"])],
            mon=mon, near=near, trajfin=all(isfinite_bytes(b) for (_, b, _, _) in r["traj"]) and isfinite_bytes(r["bfin"]),
            caller=bool(r["caller"]), negsteps=int(r["negsteps"]), pure=bool(r["pure"]),
            cellsok=bool(r["cellsok"]), dtmode="local" if r["dtlocal"] else "global",
            raised=r["raised"] or ""))
    return calls


def monitor_value(typ, bits, r):
    q = np.frombuffer(bits, dtype=float)
    n = q.size
    if typ == "residual":
        z = np.array([-1.0, -0.5, 0.25, -0.75, 0.5, -0.125][:n])
        if r.get("rhs_mode") == "one":
            return float(n)
        return float(np.sum(np.abs(z * q)))
    if typ == "data_average":
        vol = np.array([1.0, 0.5, 2.0, 1.0, 0.25, 4.0][:n])
        return np.average(q, weights=vol)
    return None


def describe(raw):
    """human-readable replayable description of one raw call (for samples / replay files)"""
    return dict(cls=raw["clsname"], op=raw["op"], t0=raw["t0"], tsave=raw["tsave"], tot=raw["tot"],
                maxit=raw["maxit"], nit=raw["nit"], res_times=[t for (t, _, _) in raw["res"]],
                res_it=[i for (_, i, _) in raw["res"]], traj_t=[t for (t, _, _, _) in raw["traj"]],
                tfin=raw["tfin"], raised=raw["raised"], cfl=raw.get("cfl", 1.0))


def lattice(t):
    """time in lattice units if it is exactly on the lattice, else None"""
    x = t * UNIT
    return int(x) if (math.isfinite(x) and x == int(x)) else None


def trace_of(raws, froms, kind, prof, t0, tid, tscale=1.0):
    """event trace of a script (list of raw calls made on one Session) in lattice units, or None when some time
    is off the lattice (integrators whose time increments are not exact in floating point)"""
    ids = IdSpace()
    events = []
    ok = True

    def L(t):
        nonlocal ok
        v = lattice(t / tscale)
        if v is None:
            ok = False
            return 0
        return v

    id0 = None
    for r, frm in zip(raws, froms):
        if id0 is None:
            id0 = ids(r["b0"]) if frm == "f0" else None
        events.append(dict(e="call", op=OPNAME.get(r["op"], r["op"]), **{"from": frm}, tsave=[L(t) for t in r["tsave"]],
                           tot=L(r["tot"]) if r["tot"] is not None else -1,
                           maxit=int(r["maxit"]) if r["maxit"] is not None else -1,
                           freqs=r["freqs_arg"], id=ids(r["b0"]), t=L(r["t0"]), it=int(r["it0"]),
                           cfl=int(r.get("cfl", 1.0)), dtl=bool(r.get("dtlocal"))))
        if float(r.get("cfl", 1.0)) != int(r.get("cfl", 1.0)):
            ok = False
        cur = None
        for e in r["ev"]:
            if e[0] == "ts":
                events.append(dict(e="ts", t=L(e[1]), id=ids(e[2]), dt=L(e[3])))
            elif e[0] == "sb":
                cur = e
            elif e[0] == "se" and cur is not None:
                events.append(dict(e="step", t=L(cur[1]), id=ids(cur[2]), h=L(cur[3]), t2=L(e[1]), id2=ids(e[2])))
                cur = None
        itstart = r["totnit"] - r["nit"]
        mon = []
        for (f, its, mts, vals, typ) in r["mons"]:
            for it_, t_ in zip(its, mts):
                if r["op"] == "solve" or it_ >= itstart:
                    mon.append(dict(f=int(f), it=int(it_), t=L(t_)))
        mon.sort(key=lambda m: (m["it"], m["f"]))
        events.append(dict(e="ret", nit=int(r["nit"]), totnit=int(r["totnit"]),
                           res=[dict(t=L(t), it=int(i), id=ids(b)) for (t, i, b) in r["res"]], mon=mon))
    if not ok or id0 is None:
        return None
    return dict(id=tid, kind=kind, prof=prof, t0=L(t0) if True else 0, id0=id0, events=events)
