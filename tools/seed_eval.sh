#!/bin/bash
# usage: tools/seed_eval.sh <seed-id> <worktree> <primary-property> [checks to run ...]
# confirms a seeded change (demo fails with it / passes without, suite green with it), stores it under seeded/<seed-id>/,
# then applies it to /repo, runs the given quick checks, and reverts /repo.
set -u
ID=$1; WT=$2; PROP=$3; shift 3
CHECKS="$@"
OUT=/verif/seeded/$ID
mkdir -p $OUT
cd $WT || exit 2
# source of truth: the patch file (the agent's, or the one already stored); `git stash` is SHARED between worktrees, so it is
# never used here (parallel evaluations popped each other's stashes once)
if [ -s $WT/patch.diff ]; then cp $WT/patch.diff $OUT/patch.diff; fi
[ -s $OUT/patch.diff ] || { echo "empty patch"; exit 2; }
git checkout -q -- flowdyn && git apply $OUT/patch.diff || { echo "cannot apply patch"; exit 2; }
DEMO=$(ls demo_*.py | head -1)
cp $DEMO $OUT/
PYTHONPATH=$WT MPLBACKEND=Agg /venv/bin/python $DEMO > $OUT/demo_with.log 2>&1; RC_WITH=$?
git apply -R $OUT/patch.diff
PYTHONPATH=$WT MPLBACKEND=Agg /venv/bin/python $DEMO > $OUT/demo_without.log 2>&1; RC_WITHOUT=$?
git apply $OUT/patch.diff
echo "demo with patch: rc=$RC_WITH ; without: rc=$RC_WITHOUT"
(cd $WT && PYTHONPATH=$WT MPLBACKEND=Agg timeout 1500 /venv/bin/python -m pytest -q -p no:cacheprovider -x tests 2>&1 | tail -1) > $OUT/suite.log
echo "suite with patch: $(cat $OUT/suite.log)"
# the patch must apply to /repo's HEAD (checked without touching /repo: a long background run may be using it)
git -C /repo apply --check $OUT/patch.diff || { echo "patch does not apply to /repo"; exit 2; }
# run the checks against the patched tree (the worktree has exactly /repo's HEAD + the patch)
: > $OUT/checks.log
for c in $CHECKS; do
  (cd /verif && FLOWDYN_REPO=$WT ./check $c --tier quick 2>&1 | grep -v "Warning\|np\.\|^  \|dt\[c\]" | grep "VIOLATION\|KNOWN\|quick:\|MACHINERY" | sed 's/replay=[^ ]*//' | cut -c1-220 | sort | uniq | head -6) >> $OUT/checks.log
done
cat $OUT/checks.log
echo "rc_with=$RC_WITH rc_without=$RC_WITHOUT" > $OUT/confirm.txt
