SPECIFICATION Spec
CONSTANTS
  Scripts <- ScriptsLegacy
  Kinds = {"onestep", "implicit", "gear"}
  DtProfiles = {"c4", "var"}
  T0s = {0, 4}
  Deviations = {}
INVARIANT InvL_count
INVARIANT InvL_times
INVARIANT InvL_ontraj
INVARIANT InvL_forward
INVARIANT InvL_nit
INVARIANT InvL_pure
INVARIANT InvC07_advance
INVARIANT InvC07_nit
INVARIANT InvC07_times
INVARIANT InvC07_ontraj
INVARIANT InvC08_pure
INVARIANT InvC08_counters
INVARIANT ExportHist
PROPERTY NitCountsMainSteps
PROPERTY CallerFieldUntouched
PROPERTY LegacyNeverSteppsBack
CHECK_DEADLOCK FALSE
