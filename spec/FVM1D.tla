------------------------------- MODULE FVM1D -------------------------------
(***************************************************************************)
(* The 1D finite-volume space operator of flowdyn.modeldisc.fvm1d with the  *)
(* reconstructions of flowdyn.xnum, in exact rational arithmetic, for a     *)
(* scalar quantity and a FREE numerical flux: the flux at a face is the     *)
(* uninterpreted term F(pL, pR), and residuals are formal linear            *)
(* combinations (Lin) of such terms.  What holds for these formal objects   *)
(* holds for every flux function.                                           *)
(*                                                                         *)
(*   rhs = cons2prim -> calc_grad -> calc_bc_grad -> interp_face -> calc_bc *)
(*         -> calc_flux -> calc_res (-> add_source)                         *)
(*                                                                         *)
(* A mesh is its tuple of faces xf (index 1..N+1); cell c has faces c, c+1. *)
(* `period` is mesh.length (used by the periodic closure of the gradient).  *)
(***************************************************************************)
EXTENDS Limiters

(* ------------------------------------------------------------------ formal linear combinations *)
LZero == [t \in {} |-> Zero]
LGet(a, t) == IF t \in DOMAIN a THEN a[t] ELSE Zero
LNorm(a) == [t \in {u \in DOMAIN a : a[u] # Zero} |-> a[t]]
LAdd(a, b) == LNorm([t \in (DOMAIN a) \cup (DOMAIN b) |-> RAdd(LGet(a, t), LGet(b, t))])
LScale(c, a) == LNorm([t \in DOMAIN a |-> RMul(c, a[t])])
LSub(a, b) == LAdd(a, LScale(R(-1), b))
LTerm(t) == [u \in {t} |-> One]
RECURSIVE LSumTo(_, _)
LSumTo(v, k) == IF k = 0 THEN LZero ELSE LAdd(LSumTo(v, k - 1), v[k])
LSum(v) == LSumTo(v, Len(v))
(* the mirror image of a combination of flux terms: F(a, b) |-> -F(b, a) *)
RECURSIVE LSwapSet(_, _)
LSwapSet(a, S) == IF S = {} THEN LZero
                  ELSE LET t == CHOOSE u \in S : TRUE
                       IN LAdd(LScale(RNeg(a[t]), LTerm(<<t[2], t[1]>>)), LSwapSet(a, S \ {t}))
LSwap(a) == LSwapSet(a, DOMAIN a)

(* ------------------------------------------------------------------ geometry *)
N(xf) == Len(xf) - 1
XC(xf) == [c \in 1..N(xf) |-> RMul(Half, RAdd(xf[c], xf[c + 1]))]
VOL(xf) == [c \in 1..N(xf) |-> RSub(xf[c + 1], xf[c])]

(* ------------------------------------------------------------------ pipeline stages *)
(* calc_grad: face-based gradients, zero at the two end faces *)
CalcGrad(xf, d) == LET n == N(xf) xc == XC(xf) IN
  [f \in 1..(n + 1) |-> IF f = 1 \/ f = n + 1 THEN Zero
                        ELSE RDiv(RSub(d[f], d[f - 1]), RSub(xc[f], xc[f - 1]))]
(* calc_bc_grad: periodic closure over the seam (distance xc[1] + period - xc[N]); zero otherwise *)
BcGrad(xf, period, d, g, per) == LET n == N(xf) xc == XC(xf) IN
  IF per THEN LET gs == RDiv(RSub(d[1], d[n]), RSub(RAdd(xc[1], period), xc[n]))
              IN [f \in 1..(n + 1) |-> IF f = 1 \/ f = n + 1 THEN gs ELSE g[f]]
  ELSE g

(* slope used to extrapolate from cell c to its RIGHT face (left state of face c+1) and to its LEFT face *)
KOf(recon) == CASE recon = "extrapol2" -> R(-1) [] recon = "k-1" -> R(-1) [] recon = "k0" -> Zero
                [] recon = "k1/3" -> Q(1, 3) [] recon = "k1/2" -> Half [] recon = "k1" -> One [] OTHER -> Zero
IsK(recon) == recon \in {"k-1", "k0", "k1/3", "k1/2", "k1"}
IsMuscl(recon) == recon \in {"muscl_minmod", "muscl_vanalbada", "muscl_vanleer", "muscl_superbee"}
LimOf(recon) == CASE recon = "muscl_minmod" -> "minmod" [] recon = "muscl_vanalbada" -> "vanalbada"
                  [] recon = "muscl_vanleer" -> "vanleer" [] recon = "muscl_superbee" -> "superbee"
SlopeToRight(recon, g, c) ==
  CASE recon = "extrapol1" -> Zero
    [] recon = "extrapol2" -> g[c]
    [] IsK(recon) -> RMul(Half, RAdd(RMul(RSub(One, KOf(recon)), g[c]), RMul(RAdd(One, KOf(recon)), g[c + 1])))
    [] IsMuscl(recon) -> Lim(LimOf(recon), g[c + 1], g[c])
SlopeToLeft(recon, g, c) ==
  CASE recon = "extrapol1" -> Zero
    [] recon = "extrapol2" -> g[c + 1]
    [] IsK(recon) -> RMul(Half, RAdd(RMul(RSub(One, KOf(recon)), g[c + 1]), RMul(RAdd(One, KOf(recon)), g[c])))
    [] IsMuscl(recon) -> Lim(LimOf(recon), g[c], g[c + 1])

(* interp_face: pL[f] for f = 2..N+1 (from cell f-1), pR[f] for f = 1..N (from cell f); the missing ends are 0 until calc_bc *)
InterpL(xf, d, g, recon) == LET n == N(xf) xc == XC(xf) IN
  [f \in 1..(n + 1) |-> IF f = 1 THEN Zero
                        ELSE RAdd(d[f - 1], RMul(SlopeToRight(recon, g, f - 1), RSub(xf[f], xc[f - 1])))]
InterpR(xf, d, g, recon) == LET n == N(xf) xc == XC(xf) IN
  [f \in 1..(n + 1) |-> IF f = n + 1 THEN Zero
                        ELSE RAdd(d[f], RMul(SlopeToLeft(recon, g, f), RSub(xf[f], xc[f])))]

(* calc_bc.  bc = [type, val]: "per" | "dirichlet" (imposed state val) | "copy" (zero-gradient / reflecting scalar) *)
BcL(pL, pR, n, bcl) == CASE bcl.type = "per" -> [pL EXCEPT ![1] = pL[n + 1]]
                         [] bcl.type = "dirichlet" -> [pL EXCEPT ![1] = bcl.val]
                         [] bcl.type = "copy" -> [pL EXCEPT ![1] = pR[1]]
BcR(pL, pR, n, bcr) == CASE bcr.type = "per" -> [pR EXCEPT ![n + 1] = pR[1]]
                         [] bcr.type = "dirichlet" -> [pR EXCEPT ![n + 1] = bcr.val]
                         [] bcr.type = "copy" -> [pR EXCEPT ![n + 1] = pL[n + 1]]

(* face states after the boundary treatment: <<pL, pR>> *)
FaceStates(xf, period, d, recon, bcl, bcr) ==
  LET n == N(xf)
      per == bcl.type = "per"
      g == BcGrad(xf, period, d, CalcGrad(xf, d), per)
      l0 == InterpL(xf, d, g, recon)
      r0 == InterpR(xf, d, g, recon)
  IN <<BcL(l0, r0, n, bcl), BcR(l0, r0, n, bcr)>>

(* calc_flux + calc_res with the free flux: residual of cell c is the Lin  -(F[c+1] - F[c]) / vol[c] *)
FluxTerm(fs, f) == <<fs[1][f], fs[2][f]>>
Residual(xf, period, d, recon, bcl, bcr) ==
  LET fs == FaceStates(xf, period, d, recon, bcl, bcr)
      v == VOL(xf)
  IN [c \in 1..N(xf) |-> LScale(RInv(v[c]), LSub(LTerm(FluxTerm(fs, c)), LTerm(FluxTerm(fs, c + 1))))]

(* the same with an interpreted linear upwind flux  F = a pL (a > 0),  a pR (a < 0): a rational residual *)
UpwindResidual(xf, period, d, recon, bcl, bcr, a) ==
  LET fs == FaceStates(xf, period, d, recon, bcl, bcr)
      v == VOL(xf)
      F == [f \in 1..(N(xf) + 1) |-> IF RSign(a) >= 0 THEN RMul(a, fs[1][f]) ELSE RMul(a, fs[2][f])]
  IN [c \in 1..N(xf) |-> RDiv(RSub(F[c], F[c + 1]), v[c])]

(* ------------------------------------------------------------------ properties *)
Per == [type |-> "per", val |-> Zero]
(* C01: sum_c vol[c] * R[c] = F[1] - F[N+1] as a formal identity; 0 when periodic *)
Conservation(xf, period, d, recon, bcl, bcr) ==
  LET fs == FaceStates(xf, period, d, recon, bcl, bcr)
      Rs == Residual(xf, period, d, recon, bcl, bcr)
      v == VOL(xf)
      total == LSum([c \in 1..N(xf) |-> LScale(v[c], Rs[c])])
  IN /\ total = LSub(LTerm(FluxTerm(fs, 1)), LTerm(FluxTerm(fs, N(xf) + 1)))
     /\ (bcl.type = "per" => total = LZero)

(* C11 (i) / C03: constant data: every face state is the constant; the residual vanishes identically *)
ConstPreserved(xf, period, c0, recon, bcl, bcr) ==
  LET d == [c \in 1..N(xf) |-> c0]
      fs == FaceStates(xf, period, d, recon, bcl, bcr)
      okbc(b) == b.type # "dirichlet" \/ b.val = c0
  IN (okbc(bcl) /\ okbc(bcr)) =>
       /\ \A f \in 1..(N(xf) + 1) : fs[1][f] = c0 /\ fs[2][f] = c0
       /\ \A c \in 1..N(xf) : Residual(xf, period, d, recon, bcl, bcr)[c] = LZero

(* C11 (ii): linear data alpha + beta x reproduced at the faces whose two neighbouring gradients are interior *)
LinearExact(xf, alpha, beta, recon) ==
  LET n == N(xf) xc == XC(xf)
      d == [c \in 1..n |-> RAdd(alpha, RMul(beta, xc[c]))]
      cp == [type |-> "copy", val |-> Zero]
      fs == FaceStates(xf, RSub(xf[n + 1], xf[1]), d, recon, cp, cp)
      at(f) == RAdd(alpha, RMul(beta, xf[f]))
  IN (recon # "extrapol1") =>
       \A c \in 2..(n - 1) : fs[1][c + 1] = at(c + 1) /\ fs[2][c] = at(c)
(* C11 (iii): extrapol1 returns the adjacent cell values *)
FirstOrderCopies(xf, d, bcl, bcr) ==
  LET fs == FaceStates(xf, RSub(xf[Len(xf)], xf[1]), d, "extrapol1", bcl, bcr) IN
  /\ \A f \in 2..(N(xf) + 1) : fs[1][f] = d[f - 1]
  /\ \A f \in 1..N(xf) : fs[2][f] = d[f]

(* C14: cyclic shift on a uniform periodic mesh commutes with the operator (terms are values, so no renaming needed) *)
Roll(v, k) == LET n == Len(v) IN [c \in 1..n |-> v[((((c - 1 - k) % n) + n) % n) + 1]]
ShiftEquivariant(xf, d, recon, k) ==
  LET period == RSub(xf[Len(xf)], xf[1]) IN
  Residual(xf, period, Roll(d, k), recon, Per, Per) = Roll(Residual(xf, period, d, recon, Per, Per), k)

(* C13: reflection x -> -x.  Mirror mesh: faces -xf reversed; data reversed; BCs exchanged; a flux term F(a, b) of the
   original problem corresponds to the term F(b, a) of the mirrored one with the opposite sign (even quantity) *)
Rev(v) == LET n == Len(v) IN [c \in 1..n |-> v[n + 1 - c]]
MirrorFaces(xf) == LET n == Len(xf) IN [f \in 1..n |-> RNeg(xf[n + 1 - f])]
MirrorEquivariant(xf, period, d, recon, bcl, bcr) ==
  LET Rm == Residual(MirrorFaces(xf), period, Rev(d), recon, bcr, bcl)
      Ro == Residual(xf, period, d, recon, bcl, bcr)
  IN \A c \in 1..N(xf) : Rm[N(xf) + 1 - c] = LSwap(Ro[c])

(* C11 (iv): kappa-scheme stencil.  On a uniform periodic mesh (dx = 1) with the upwind flux a = +1 the operator applied
   to the unit impulse at cell j is the circulant column  R[j+m] = s(m):
     s(-1) = -(1-k)/4, s(0) = -(1 - (1-k)/4 - ... ) ...   given here in closed form from the definition
     F_{c+1/2} = q_c + (1-k)/4 (q_c - q_{c-1}) + (1+k)/4 (q_{c+1} - q_c),   R_c = F_{c-1/2} - F_{c+1/2}            *)
KappaStencil(k) == LET km == RMul(Q(1, 4), RSub(One, k)) kp == RMul(Q(1, 4), RAdd(One, k)) IN
  \* coefficient of q_{c+m} in R_c, m = -2..1
  [m \in {-2, -1, 0, 1} |-> CASE m = -2 -> RNeg(km)
                              [] m = -1 -> RAdd(RAdd(One, km), RSub(km, kp))
                              [] m = 0  -> RAdd(RNeg(RAdd(One, km)), RAdd(kp, kp))
                              [] m = 1  -> RNeg(kp)]
=============================================================================
