"""D20: the geometric source of a nozzle operator follows the LAST mesh its model was discretised on.
Two operators share one nozzle model (same cell count, different cell positions); evaluating the FIRST one after the second
was built must still give rhs(nozzle) - rhs(euler1d) = -(1/A)(dA/dx) (rho u, rho u^2, rho u H) on ITS OWN mesh (C19).
exit 1: violated, exit 0: holds."""
import sys
import numpy as np
import flowdyn.mesh as mesh
import flowdyn.modelphy.euler as euler
import flowdyn.modeldisc as modeldisc
import flowdyn.xnum as xnum

law = lambda x: 1.0 + 0.5 * x          # noqa: E731
gam = 1.4
m1 = mesh.unimesh(ncell=8, length=1.0)
m2 = mesh.refinedmesh(ncell=8, length=1.0, ratio=3.0)
noz = euler.nozzle(law, gamma=gam)
eul = euler.euler1d(gamma=gam)
bc = dict(bcL={"type": "dirichlet", "prim": [1.0, 0.5, 1.0]}, bcR={"type": "dirichlet", "prim": [1.0, 0.5, 1.0]})
op1 = modeldisc.fvm(noz, m1, xnum.extrapol1(), numflux="hlle", **bc)
ref1 = modeldisc.fvm(eul, m1, xnum.extrapol1(), numflux="hlle", **bc)
x = m1.centers()
prim = [1.0 + 0.1 * np.sin(6 * x), 0.5 + 0.1 * x, 1.0 + 0.05 * np.cos(5 * x)]
f1, g1 = op1.fdata_fromprim(prim), ref1.fdata_fromprim(prim)


def defect():
    R = op1.rhs(f1)
    R0 = ref1.rhs(g1)
    q = f1.data
    geom = (law(m1.xf[1:]) - law(m1.xf[:-1])) / (m1.xf[1:] - m1.xf[:-1]) / law(m1.centers())
    ec = 0.5 * q[1] ** 2 / q[0]
    want = [-geom * q[1], -geom * q[1] ** 2 / q[0], -geom * q[1] * ((q[2] - ec) * gam + ec) / q[0]]
    return max(float(np.max(np.abs((R[i] - R0[i]) - want[i]))) for i in range(3))


before = defect()
modeldisc.fvm(noz, m2, xnum.extrapol1(), numflux="hlle", **bc)      # the same model is given to an operator on another mesh
after = defect()
print("geometric source defect of the first operator: %.3e before, %.3e after the model served a second mesh" % (before, after))
sys.exit(1 if after > 1e-12 else 0)
