"""C02 numerical fluxes: consistency, mirror symmetry, upwinding.  Fluxes.tla is model checked on grids of exact-point
states; the real numflux functions are judged by TLC against the PHYSICAL flux (exact rationals on exact points,
ulps tokens on random floats) and against themselves (mirror / locality / homogeneity)."""
import itertools, math, os, random, sys
from fractions import Fraction
import numpy as np
from . import core, fd
from .fvm_check import run_check

F = Fraction


# ----------------------------------------------------------------------------- physical fluxes (definitions), exact
def phys(model, par, W):
    """physical flux of a primitive state in exact arithmetic. par: gamma / g / a (Fraction); W: tuple of Fractions"""
    if model == "convection":
        return [par * W[0]]
    if model == "burgers":
        return [W[0] * W[0] / 2]
    if model == "sw":
        h, u = W
        return [h * u, h * u * u + par * h * h / 2]
    rho, u, p = W
    H = par * p / ((par - 1) * rho) + u * u / 2
    return [rho * u, rho * u * u + p, rho * u * H]


PARITY = {"convection": [-1], "burgers": [1], "sw": [-1, 1], "euler": [-1, 1, -1]}
FLUXNAMES = {"convection": [None], "burgers": [None], "sw": ["centered", "rusanov", "hll"],
             "euler": ["centered", "centeredmassflow", "hlle", "hllc"]}
UPWIND = {("convection", None), ("burgers", None), ("sw", "hll"), ("euler", "hlle"), ("euler", "hllc")}


def make(model, par):
    if model == "convection":
        return fd.conv.model(float(par))
    if model == "burgers":
        return fd.burgers.model()
    if model == "sw":
        return fd.sw.shallowwater1d(g=float(par))
    return fd.euler.euler1d(gamma=float(par))


def numflux(m, name, L, R):
    """real numflux on arrays of states: L, R lists (per variable) of 1D float arrays"""
    with np.errstate(all="ignore"):
        # history of the model object: a sibling call (same shapes, other states) comes first; a flux is a function of its arguments
        try:
            m.numflux(name, [np.array(x, dtype=float) * 1.3 for x in R], [np.array(x, dtype=float) * 0.7 for x in L])
        except Exception:
            pass
        out = m.numflux(name, [np.array(x, dtype=float) for x in L], [np.array(x, dtype=float) for x in R])
    return [np.array(o, dtype=float) for o in out]


def one(m, name, L, R):
    out = numflux(m, name, [[x] for x in L], [[x] for x in R])
    return [float(o[0]) for o in out]


def mirror_state(model, W):
    if model == "convection":
        return list(W)
    if model == "burgers":
        return [-W[0]]
    if model == "sw":
        return [W[0], -W[1]]
    return [W[0], -W[1], W[2]]


def rationalise(x):
    if not math.isfinite(x):
        return [0, 1], core.ULP_CAP
    q = F(x).limit_denominator(2 ** 22)
    if not core.fits(q):
        return [0, 1], core.ULP_CAP
    return core.rat(q), core.ulps(x, q, max(abs(x), 1e-300))


# ----------------------------------------------------------------------------- exact-point records
def exact_points(tier):
    rhos = [F(1, 4), F(1), F(4)] if tier == "quick" else [F(1, 100), F(1, 4), F(1), F(4), F(9), F(100)]
    us = [F(-3), F(-1), F(-1, 2), F(0), F(1, 2), F(2), F(3)] if tier == "quick" else \
        [F(-3), F(-2), F(-1), F(-1, 2), F(0), F(1, 2), F(1), F(2), F(3)]
    cs = [F(1, 2), F(1), F(3, 2)] if tier == "quick" else [F(1, 2), F(1), F(3, 2), F(2)]
    return rhos, us, cs


def roe_stress_pairs(rnd, tier, gam):
    """same-direction supersonic pairs on a rational grid with density ratios 1..1024 (rational square roots) whose upwind regime
    DEPENDS on the Roe weights: every state supersonic, the exactly weighted Roe average too, but the weight-independent sufficient
    bound min u^2 > max c^2 + (gamma-1)/8 du^2 fails.  TLC decides the regime exactly (Fluxes.tla SuperRight/SuperLeft)."""
    rhos = [F(1, 16), F(1, 4), F(1), F(4), F(16), F(64)]
    cs = [F(1, 2), F(1), F(2), F(5)]
    machs = [F(11, 10), F(5, 4), F(3, 2), F(2), F(3)]
    states = [(r, m_ * c, c) for r in rhos for c in cs for m_ in machs]
    g = float(gam)

    def roe(L, R):
        w = math.sqrt(R[0] / L[0])
        t = 1.0 / (1.0 + w)
        HL, HR = float(L[2] ** 2) / (g - 1) + float(L[1] ** 2) / 2, float(R[2] ** 2) / (g - 1) + float(R[1] ** 2) / 2
        u = t * (float(L[1]) + w * float(R[1]))
        return u, (g - 1) * (t * (HL + w * HR) - u * u / 2)
    dep, indep = [], []
    for L in states:
        for R in states:
            if L == R:
                continue
            u, c2 = roe(L, R)
            if not u * u > c2 * 1.001:
                continue
            # keep pairs whose upwind physical flux is identifiable from its float (small denominators, 32-bit numerators)
            p_ = L[0] * L[2] ** 2 / gam
            fl = [L[0] * L[1], L[0] * L[1] ** 2 + p_, L[0] * L[1] * (L[2] ** 2 / (gam - 1) + L[1] ** 2 / 2)]
            if any(x.denominator > 2 ** 18 or abs(x.numerator) >= 2 ** 30 for x in fl):
                continue
            suff = min(L[1] ** 2, R[1] ** 2) > max(L[2] ** 2, R[2] ** 2) + (gam - 1) / 8 * (L[1] - R[1]) ** 2
            (indep if suff else dep).append((L, R))
    nd, ni = (150, 50) if tier == "quick" else (1500, 300)
    pairs = rnd.sample(dep, min(nd, len(dep))) + rnd.sample(indep, min(ni, len(indep)))
    out = []
    for k, (L, R) in enumerate(pairs):
        if k % 2:       # the mirrored, left-going pair
            L, R = (R[0], -R[1], R[2]), (L[0], -L[1], L[2])
        out.append((L, R))
    return out


def exact_records(rnd, tier):
    recs = []
    rhos, us, cs = exact_points(tier)
    # Euler: W = (rho, u, c), p = rho c^2 / gamma
    for gam in ([F(7, 5), F(5, 3)] if tier == "quick" else [F(7, 5), F(5, 3), F(2)]):
        m = make("euler", gam)
        states = [(r, u, c) for r in rhos for u in us for c in cs]
        prim = lambda s: [float(s[0]), float(s[1]), float(s[0] * s[2] * s[2] / gam)]     # noqa: E731
        pairs = [(s, s) for s in states]
        allpairs = [(a, b) for a in states for b in states if a != b]
        pairs += rnd.sample(allpairs, min(len(allpairs), 400 if tier == "quick" else 6000))
        stress = roe_stress_pairs(rnd, tier, gam)
        for name in FLUXNAMES["euler"]:
            for (a, b) in pairs + (stress if ("euler", name) in UPWIND else []):
                try:
                    fl = one(m, name, prim(a), prim(b))
                except Exception as ex:
                    recs.append(dict(kind="raised", what=str(ex)[:100], model="euler", name=name))
                    continue
                rr = [rationalise(x) for x in fl]
                recs.append(dict(kind="exact", model="euler", name=name, par=core.rat(gam), L=[core.rat(x) for x in a],
                                 R=[core.rat(x) for x in b], flux=[q for q, _ in rr], err=[e for _, e in rr],
                                 upwindflux=1 if ("euler", name) in UPWIND else 0,
                                 small=1 if name in ("centered", "centeredmassflow") else 0))
    # shallow water: W = (c, u), h = c^2 / g
    for g in ([F(1), F(8)] if tier == "quick" else [F(1), F(8), F(981, 100)]):
        m = make("sw", g)
        states = [(c, u) for c in cs for u in us]
        prim = lambda s: [float(s[0] * s[0] / g), float(s[1])]     # noqa: E731
        pairs = [(s, s) for s in states] + [(a, b) for a in states for b in states if a != b]
        if tier == "quick":
            pairs = pairs[:len(states)] + rnd.sample(pairs[len(states):], 200)
        for name in FLUXNAMES["sw"]:
            for (a, b) in pairs:
                fl = one(m, name, prim(a), prim(b))
                rr = [rationalise(x) for x in fl]
                recs.append(dict(kind="exact", model="sw", name=name, par=core.rat(g), L=[core.rat(x) for x in a],
                                 R=[core.rat(x) for x in b], flux=[q for q, _ in rr], err=[e for _, e in rr],
                                 upwindflux=1 if ("sw", name) in UPWIND else 0, small=1))
    # scalars
    vals = [F(-2), F(-1, 2), F(0), F(3, 4), F(2)]
    for a in [F(1), F(-1), F(5, 2), F(-1, 4)]:
        m = make("convection", a)
        for (x, y) in itertools.product(vals, vals):
            fl = one(m, None, [float(x)], [float(y)])
            rr = [rationalise(v) for v in fl]
            recs.append(dict(kind="exact", model="convection", name="upwind", par=core.rat(a), L=[core.rat(x)], R=[core.rat(y)],
                             flux=[q for q, _ in rr], err=[e for _, e in rr], upwindflux=1, small=1))
    m = make("burgers", F(1))
    for (x, y) in itertools.product(vals + [F(1), F(-1), F(3), F(-3)], vals + [F(1), F(-1), F(3), F(-3)]):
        fl = one(m, None, [float(x)], [float(y)])
        rr = [rationalise(v) for v in fl]
        recs.append(dict(kind="exact", model="burgers", name="upwind", par=[1, 1], L=[core.rat(x)], R=[core.rat(y)],
                         flux=[q for q, _ in rr], err=[e for _, e in rr], upwindflux=1, small=1))
        if x.denominator == 1 and y.denominator == 1:
            # whole-number states handed over as INTEGER arrays (np.where(x < x0, 3, 1) builds such data): the same flux
            try:
                with np.errstate(all="ignore"):
                    out = m.numflux(None, [np.array([int(x)])], [np.array([int(y)])])
                rr = [rationalise(float(np.asarray(o, dtype=float)[0])) for o in out]
                recs.append(dict(kind="exact", model="burgers", name="upwind", par=[1, 1], L=[core.rat(x)], R=[core.rat(y)],
                                 flux=[q for q, _ in rr], err=[e for _, e in rr], upwindflux=1, small=1, dtype="int"))
            except Exception as ex:
                recs.append(dict(kind="raised", what=str(ex)[:100], model="burgers", name="upwind"))
    return recs


# ----------------------------------------------------------------------------- random float records (tokens)
def rand_state(model, rnd, wide=True):
    if model in ("convection", "burgers"):
        return [rnd.uniform(-3, 3) * (10.0 ** rnd.uniform(-3, 3) if wide else 1.0)]
    if model == "sw":
        h = 10.0 ** rnd.uniform(-3, 3) if wide else rnd.uniform(0.2, 3)
        c = math.sqrt(h)       # g folded in below by caller if needed
        return [h, rnd.uniform(-3, 3) * c]
    rho = 10.0 ** rnd.uniform(-3, 3) if wide else rnd.uniform(0.2, 3)
    p = 10.0 ** rnd.uniform(-3, 3) if wide else rnd.uniform(0.2, 3)
    c = math.sqrt(1.4 * p / rho)
    return [rho, rnd.uniform(-3, 3) * c, p]


def comp_ulps(obs, want, scales):
    worst = 0
    for o, w, s in zip(obs, want, scales):
        worst = max(worst, core.ulps(o, w, s if s > 0 else 1.0))
    return worst


def tok_records(rnd, tier):
    recs = []
    n = 150 if tier == "quick" else 3000
    for model in ("convection", "burgers", "sw", "euler"):
        for name in FLUXNAMES[model]:
            for k in range(n if model in ("sw", "euler") else n // 3):
                if model == "convection":
                    par = F(rnd.choice([1.0, -1.0, 2.5, -0.3, 1e-3, -40.0]))
                elif model == "sw":
                    par = F(rnd.choice([9.81, 1.0, 10.0, 0.5]))
                elif model == "euler":
                    par = F(rnd.choice([1.4, 5.0 / 3.0, 1.2, 2.0, 1.05]))
                else:
                    par = F(1)
                m = make(model, par)
                mm = make(model, -par) if model == "convection" else m
                L = rand_state(model, rnd, wide=(k % 2 == 0))
                R = rand_state(model, rnd, wide=(k % 2 == 0))
                if k % 5 == 0 and model in ("sw", "euler"):          # strong ratios up to 1e6
                    R[0] = L[0] * 10.0 ** rnd.uniform(-6, 6)
                if k % 4 == 1 and model == "euler" and ("euler", name) in UPWIND:
                    # both states supersonic in one direction with density ratios up to 1e6 and Mach numbers from barely
                    # supersonic (the light side) to 50 (the heavy side): the Roe average decides, and its weights matter
                    g_ = float(par)

                    def roe_mach(A_, B_, wfun):
                        w0 = wfun(math.sqrt(B_[0] / A_[0]))
                        t0 = 1.0 / (1.0 + w0)
                        H0 = [g_ * W[2] / ((g_ - 1) * W[0]) + W[1] ** 2 / 2 for W in (A_, B_)]
                        u0 = t0 * (A_[1] + w0 * B_[1])
                        c20 = (g_ - 1) * (t0 * (H0[0] + w0 * H0[1]) - u0 * u0 / 2)
                        return abs(u0) / math.sqrt(c20) if c20 > 0 else 0.0
                    # prefer pairs whose premise DEPENDS on the weights of the average: supersonic with the exact weights, not with
                    # plausible wrong ones (weights exchanged, square-rooted, clipped to two decades) -- up to 300 draws
                    for _try in range(300):
                        sg_ = rnd.choice([1.0, -1.0])
                        rl_ = 10.0 ** rnd.uniform(-1, 1)
                        rr_ = rl_ * 10.0 ** (rnd.uniform(1, 6) * rnd.choice([1, -1]))
                        st_ = []
                        for rho_ in (rl_, rr_):
                            p_ = 10.0 ** rnd.uniform(-2, 2)
                            c_ = math.sqrt(g_ * p_ / rho_)
                            heavy_ = rho_ == max(rl_, rr_)
                            mach_ = rnd.choice([rnd.uniform(1.02, 1.5), rnd.uniform(1.5, 5.0), rnd.uniform(5.0, 50.0)])
                            if _try % 2:
                                mach_ = rnd.uniform(5.0, 50.0) if heavy_ else rnd.uniform(1.02, 1.3)
                            st_.append([rho_, sg_ * mach_ * c_, p_])
                        L, R = st_
                        if roe_mach(L, R, lambda w: w) > 1.001 and min(
                                roe_mach(L, R, lambda w: 1.0 / w), roe_mach(L, R, lambda w: math.sqrt(w)),
                                roe_mach(L, R, lambda w: min(max(w, 1e-2), 1e2)), roe_mach(L, R, lambda w: 1.0)) < 0.999:
                            break
                if k % 7 == 0:                                       # sonic / zero velocity / equal states
                    R = list(L)
                if k % 11 == 0 and len(L) > 1:
                    L[1] = 0.0
                rec = dict(kind="tok", model=model, name=str(name), consist=0, mirror=0, upwind=0, local=0, homog=0, iso=0,
                           L=[repr(x) for x in L], R=[repr(x) for x in R], par=repr(float(par)))
                try:
                    fLR = one(m, name, L, R)
                    fWW = one(m, name, L, L)
                    fm = one(mm, name, mirror_state(model, R), mirror_state(model, L))
                except Exception as ex:
                    recs.append(dict(kind="raised", what=str(ex)[:100], model=model, name=str(name)))
                    continue
                WL = [F(x) for x in L]
                WR = [F(x) for x in R]
                pL, pR = phys(model, par, WL), phys(model, par, WR)
                # scales: per component, the magnitude of the physical flux parts (so that cancellations are judged fairly)
                if model == "euler":
                    sc = lambda W: [abs(W[0] * W[1]) + W[0] * abs(W[1]) , abs(W[0] * W[1] * W[1]) + W[2],     # noqa: E731
                                    (abs(W[0] * W[1]) + 0) * (par * W[2] / ((par - 1) * W[0]) + W[1] * W[1] / 2)]
                elif model == "sw":
                    sc = lambda W: [abs(W[0] * W[1]) + 0, W[0] * W[1] * W[1] + par * W[0] * W[0] / 2]        # noqa: E731
                else:
                    sc = lambda W: [max(abs(x) for x in phys(model, par, W))]                                    # noqa: E731
                sL, sR = sc(WL), sc(WR)
                # wave-speed scale for dissipative terms: (|u|+c) * |U| keeps F(W,W) honest at u = 0
                base = [max(float(a), float(b), 1e-300) for a, b in zip(sL, sR)]
                if model == "euler":
                    cL = math.sqrt(float(par) * L[2] / L[0])
                    base = [max(base[0], L[0] * cL), max(base[1], L[2]), max(base[2], L[2] * cL / (float(par) - 1) + 0.0)]
                elif model == "sw":
                    cL = math.sqrt(float(par) * L[0])
                    base = [max(base[0], L[0] * cL), base[1]]
                rec["consist"] = comp_ulps(fWW, pL, [max(float(s), b) for s, b in zip(sL, base)])
                want = [par_ * F(x) if math.isfinite(x) else F(0) for par_, x in zip(PARITY[model], fLR)]
                scm = [max(abs(x) if math.isfinite(x) else 1e300, b, float(s2)) for x, b, s2 in zip(fLR, base, sR)]
                rec["mirror"] = comp_ulps(fm, want, scm) if all(math.isfinite(x) for x in fLR + fm) else core.ULP_CAP
                # upwinding: the premise of the property, decided with the exactly weighted Roe average (floats, margin 1e-6)
                if (model, name) in UPWIND:
                    if model == "euler":
                        g_ = float(par)
                        cs_ = [math.sqrt(g_ * W[2] / W[0]) for W in (L, R)]
                        w_ = math.sqrt(R[0] / L[0])
                        t_ = 1.0 / (1.0 + w_)
                        Hs_ = [g_ * W[2] / ((g_ - 1) * W[0]) + W[1] ** 2 / 2 for W in (L, R)]
                        ur_ = t_ * (L[1] + w_ * R[1])
                        c2r_ = (g_ - 1) * (t_ * (Hs_[0] + w_ * Hs_[1]) - ur_ * ur_ / 2)
                        roe_sup = c2r_ > 0 and abs(ur_) > math.sqrt(c2r_) * (1 + 1e-6)
                        if roe_sup and ur_ > 0 and L[1] > cs_[0] * (1 + 1e-9) and R[1] > cs_[1] * (1 + 1e-9):
                            rec["upwind"] = comp_ulps(fLR, pL, [float(s) for s in sL])
                        elif roe_sup and ur_ < 0 and -L[1] > cs_[0] * (1 + 1e-9) and -R[1] > cs_[1] * (1 + 1e-9):
                            rec["upwind"] = comp_ulps(fLR, pR, [float(s) for s in sR])
                    elif model == "sw":
                        c2 = [par * W[0] for W in (WL, WR)]
                        if WL[1] > 0 and WR[1] > 0 and WL[1] ** 2 > c2[0] and WR[1] ** 2 > c2[1]:
                            rec["upwind"] = comp_ulps(fLR, pL, [float(s) for s in sL])
                        elif WL[1] < 0 and WR[1] < 0 and WL[1] ** 2 > c2[0] and WR[1] ** 2 > c2[1]:
                            rec["upwind"] = comp_ulps(fLR, pR, [float(s) for s in sR])
                    elif model == "convection":
                        rec["upwind"] = comp_ulps(fLR, pL if par > 0 else pR, [float(max(sL[0], sR[0], 1e-300))])
                    else:
                        if WL[0] > 0 and WR[0] > 0:
                            rec["upwind"] = comp_ulps(fLR, pL, [float(sL[0])])
                        elif WL[0] < 0 and WR[0] < 0:
                            rec["upwind"] = comp_ulps(fLR, pR, [float(sR[0])])
                # locality: vector call = elementwise calls (bitwise)
                L2 = rand_state(model, rnd)
                R2 = rand_state(model, rnd)
                vec = numflux(m, name, [[a, b, a] for a, b in zip(L, L2)], [[a, b, b] for a, b in zip(R, R2)])
                e0 = fLR
                e1 = one(m, name, L2, R2)
                e2 = one(m, name, L, R2)
                same = lambda a, b: a == b or (math.isnan(a) and math.isnan(b))      # noqa: E731
                rec["local"] = 0 if all(same(float(v[0]), a) and same(float(v[1]), b) and same(float(v[2]), c)
                                        for v, a, b, c in zip(vec, e0, e1, e2)) else 1
                # power-of-two change of units: bitwise
                if model == "euler":
                    a_, b_ = 2.0 ** rnd.randint(-20, 20), 2.0 ** rnd.randint(-10, 10)
                    Ls, Rs = [L[0] * a_, L[1] * b_, L[2] * a_ * b_ * b_], [R[0] * a_, R[1] * b_, R[2] * a_ * b_ * b_]
                    fs = one(m, name, Ls, Rs)
                    wantb = [fLR[0] * a_ * b_, fLR[1] * a_ * b_ * b_, fLR[2] * a_ * b_ ** 3]
                    rec["homog"] = 0 if all(same(x, y) for x, y in zip(fs, wantb)) else 1
                elif model == "burgers":
                    b_ = 2.0 ** rnd.randint(-20, 20)
                    fs = one(m, name, [L[0] * b_], [R[0] * b_])
                    rec["homog"] = 0 if same(fs[0], fLR[0] * b_ * b_) else 1
                elif model == "convection":
                    b_ = 2.0 ** rnd.randint(-20, 20)
                    fs = one(m, name, [L[0] * b_], [R[0] * b_])
                    rec["homog"] = 0 if same(fs[0], fLR[0] * b_) else 1
                recs.append(rec)
    return recs


def euler2d_records(rnd, tier):
    """2D Euler fluxes for both face directions: consistency with the physical flux along the normal, reflection across
    the face, and isotropy (x-face flux of a state = y-face flux of the state with velocity components exchanged)"""
    recs = []
    n = 120 if tier == "quick" else 2000
    for name in ("centered", "hlle"):
        for k in range(n):
            gam = rnd.choice([1.4, 5.0 / 3.0, 1.2])
            m = fd.euler.euler2d(gamma=gam)
            G = F(gam)

            def st():
                rho = 10.0 ** rnd.uniform(-2, 2)
                p = 10.0 ** rnd.uniform(-2, 2)
                c = math.sqrt(gam * p / rho)
                return [rho, [rnd.uniform(-3, 3) * c, rnd.uniform(-3, 3) * c], p]
            L, R = st(), st()
            if k % 5 == 0:
                R = [L[0], list(L[1]), L[2]]
            rec = dict(kind="tok", model="euler2d", name=name, consist=0, mirror=0, upwind=0, local=0, homog=0, iso=0, par=repr(gam),
                       L=repr(L), R=repr(R))

            def call(A, B, axis):
                d = np.zeros((2, 1), dtype=np.int8)
                d[axis, 0] = 1
                pl = [np.array([A[0]]), np.array([[A[1][0]], [A[1][1]]]), np.array([A[2]])]
                pr = [np.array([B[0]]), np.array([[B[1][0]], [B[1][1]]]), np.array([B[2]])]
                with np.errstate(all="ignore"):
                    o = m.numflux(name, pl, pr, d)
                return [float(o[0][0]), float(o[1][0][0]), float(o[1][1][0]), float(o[2][0])]
            try:
                worst_c = worst_m = worst_i = 0
                for axis in (0, 1):
                    f = call(L, R, axis)
                    fww = call(L, L, axis)
                    rho, (ux, uy), p = F(L[0]), (F(L[1][0]), F(L[1][1])), F(L[2])
                    un = ux if axis == 0 else uy
                    H = G * p / ((G - 1) * rho) + (ux * ux + uy * uy) / 2
                    want = [rho * un, rho * un * ux + (p if axis == 0 else 0), rho * un * uy + (p if axis == 1 else 0), rho * un * H]
                    cL = math.sqrt(gam * L[2] / L[0])
                    vm = abs(L[1][0]) + abs(L[1][1]) + cL
                    sc = [L[0] * vm, L[0] * vm * vm + L[2], L[0] * vm * vm + L[2], L[0] * vm * float(H)]
                    worst_c = max(worst_c, comp_ulps(fww, want, sc))
                    # reflection across the face: normal velocity negated, states swapped
                    def mir(W):
                        v = list(W[1])
                        v[axis] = -v[axis]
                        return [W[0], v, W[2]]
                    fm = call(mir(R), mir(L), axis)
                    par = [-1, 1 if axis == 0 else -1, -1 if axis == 0 else 1, -1]     # normal momentum odd, transverse even
                    cR = math.sqrt(gam * R[2] / R[0])
                    vmr = abs(R[1][0]) + abs(R[1][1]) + cR
                    scm = [max(a, b) for a, b in zip(sc, [R[0] * vmr, R[0] * vmr * vmr + R[2], R[0] * vmr * vmr + R[2],
                                                         R[0] * vmr * (gam * R[2] / ((gam - 1) * R[0]) + vmr * vmr)])]
                    worst_m = max(worst_m, comp_ulps(fm, [s * F(x) for s, x in zip(par, f)], scm) if all(map(math.isfinite, f + fm)) else core.ULP_CAP)
                # isotropy
                sw = lambda W: [W[0], [W[1][1], W[1][0]], W[2]]     # noqa: E731
                fx = call(L, R, 0)
                fy = call(sw(L), sw(R), 1)
                worst_i = comp_ulps([fy[0], fy[2], fy[1], fy[3]], [F(x) for x in fx], scm) if all(map(math.isfinite, fx + fy)) else core.ULP_CAP
                rec.update(consist=worst_c, mirror=worst_m, iso=worst_i)
                # upwinding in 2D (hlle): both states supersonic along the face normal in the same direction, any tangential
                # velocity, wide density / sound-speed contrasts; premise decided with the exactly weighted Roe average (margin 1e-6)
                if name == "hlle":
                    worst_u = 0
                    for axis in (0, 1):
                        sgn_ = rnd.choice([1.0, -1.0])

                        def sup():
                            rho = 10.0 ** rnd.uniform(-2, 2)
                            p = 10.0 ** rnd.uniform(-2, 2)
                            c = math.sqrt(gam * p / rho)
                            v = [0.0, 0.0]
                            v[axis] = sgn_ * rnd.uniform(1.05, 3.0) * c
                            v[1 - axis] = rnd.uniform(-2, 2) * c
                            return [rho, v, p]
                        A, B = sup(), sup()
                        w = math.sqrt(B[0] / A[0])
                        t = 1.0 / (1.0 + w)
                        Hs = [gam * W[2] / ((gam - 1) * W[0]) + (W[1][0] ** 2 + W[1][1] ** 2) / 2 for W in (A, B)]
                        ur = [t * (A[1][j] + w * B[1][j]) for j in (0, 1)]
                        c2 = (gam - 1) * (t * (Hs[0] + w * Hs[1]) - (ur[0] ** 2 + ur[1] ** 2) / 2)
                        if not (c2 > 0 and abs(ur[axis]) > math.sqrt(c2) * (1 + 1e-6)):
                            continue
                        U = A if sgn_ > 0 else B
                        rho, (ux, uy), p = F(U[0]), (F(U[1][0]), F(U[1][1])), F(U[2])
                        un = ux if axis == 0 else uy
                        H = G * p / ((G - 1) * rho) + (ux * ux + uy * uy) / 2
                        want = [rho * un, rho * un * ux + (p if axis == 0 else 0), rho * un * uy + (p if axis == 1 else 0), rho * un * H]
                        cU = math.sqrt(gam * U[2] / U[0])
                        vm = abs(U[1][0]) + abs(U[1][1]) + cU
                        scu = [U[0] * vm, U[0] * vm * vm + U[2], U[0] * vm * vm + U[2], U[0] * vm * float(H)]
                        fu = call(A, B, axis)
                        worst_u = max(worst_u, comp_ulps(fu, want, scu) if all(map(math.isfinite, fu)) else core.ULP_CAP)
                    rec["upwind"] = worst_u
            except Exception as ex:
                rec = dict(kind="raised", what=str(ex)[:100], model="euler2d", name=name)
            recs.append(rec)
    return recs


def sig_of(r):
    return {"model": r.get("model", ""), "flux": str(r.get("name", "")), "kind": r["kind"]}


def run(tier):
    rnd = random.Random(core.seed())
    recs = exact_records(rnd, tier) + tok_records(rnd, tier) + euler2d_records(rnd, tier)
    return run_check(
        "C02", tier,
        rule="model: every pair of exact-point states on the grid (Fluxes.tla: transcribed fluxes, all three clauses); code: every "
             "registered flux on exact-point pairs (observed value identified with a rational, TLC computes the physical flux and "
             "decides the supercritical regime exactly) and on random float pairs (ratios to 1e6, 6 decades) as ulps tokens",
        assumptions=["an observed float is identified with the rational p/q (q <= 200000) nearest to it when they differ by <= 64 ulp",
                     "TLC integers are 32 bit: HLL-type transcriptions are model checked on a sub-grid of small numbers; the real HLLE/"
                     "HLLC are judged against the physical flux and against their own mirror image only",
                     "round-off clause scaled, per component, by the magnitude of the physical flux parts and of (|u|+c)|U|"],
        mc_runs=[("MC_Fluxes", "MC_Fluxes.cfg" if tier == "quick" else "MC_Fluxes_f.cfg", 16)],
        groups=[("Judge_Flux", recs)], prefixes=["C02"], sig_of=sig_of,
        symbolic=("Apa_Fluxes", ["InvHllConsistent", "InvHllUpwind", "InvHllMirror", "InvRusanov", "InvCentered", "InvConvection", "InvBurgers"],
                  "model level, beyond the grid: Apa_Fluxes.tla proves with Apalache/Z3 consistency, mirror symmetry and upwinding of "
                  "the two-wave HLL form, the Rusanov and centered forms (physical fluxes, conserved quantities and wave speeds "
                  "FREE: any system, any gamma / g) and of the convection and Burgers upwind fluxes, for ALL values"))


if __name__ == "__main__":
    sys.exit(run(os.environ.get("VERIF_TIER", "quick")))
