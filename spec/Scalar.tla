------------------------------- MODULE Scalar -------------------------------
(***************************************************************************)
(* Scalar conservation laws (linear convection, Burgers) advanced by the    *)
(* real scheme in exact rationals: FVM1D reconstruction + upwind flux +      *)
(* forward Euler / SSP Runge-Kutta with the CFL-limited global time step.   *)
(* C09: every step keeps the solution in the range of the previous one and  *)
(* does not increase its (periodic) total variation.                        *)
(***************************************************************************)
EXTENDS FVM1D

(* Burgers numerical flux as in the repaired code: upwind on the sign of (uL+uR)/2, the tie belongs to the left state *)
BurgF(uL, uR, dev) == LET s == RSign(RAdd(uL, uR)) IN
  IF s > 0 THEN RMul(Half, RSq(uL)) ELSE IF s < 0 THEN RMul(Half, RSq(uR))
  ELSE IF "BurgersTieZero" \in dev THEN Zero ELSE RMul(Half, RSq(uL))

(* residual on a periodic mesh; model = <<"conv", a>> or <<"burgers", Zero>> *)
Res(xf, q, recon, model, dev) ==
  LET n == N(xf)
      fs == FaceStates(xf, RSub(xf[n + 1], xf[1]), q, recon, Per, Per)
      v == VOL(xf)
      Fl == [f \in 1..(n + 1) |->
               IF model[1] = "conv" THEN (IF RSign(model[2]) >= 0 THEN RMul(model[2], fs[1][f]) ELSE RMul(model[2], fs[2][f]))
               ELSE BurgF(fs[1][f], fs[2][f], dev)]
  IN [c \in 1..n |-> RDiv(RSub(Fl[c], Fl[c + 1]), v[c])]

RECURSIVE VMaxTo(_, _)
VMaxTo(v, k) == IF k = 1 THEN v[1] ELSE RMax(VMaxTo(v, k - 1), v[k])
VMax(v) == VMaxTo(v, Len(v))
RECURSIVE VMinTo(_, _)
VMinTo(v, k) == IF k = 1 THEN v[1] ELSE RMin(VMinTo(v, k - 1), v[k])
VMin(v) == VMinTo(v, Len(v))
VAbsMax(v) == VMax([c \in 1..Len(v) |-> RAbs(v[c])])
TV(v) == LET n == Len(v) IN RSum([c \in 1..n |-> RAbs(RSub(v[(c % n) + 1], v[c]))])

(* global step: cfl * min_c dx_c / speed_c; Burgers cells with u = 0 impose no limit *)
DtOf(xf, q, model, cfl) ==
  LET v == VOL(xf)
      lims == IF model[1] = "conv" THEN {RDiv(v[c], RAbs(model[2])) : c \in 1..Len(q)}
              ELSE {RDiv(v[c], RAbs(q[c])) : c \in {k \in 1..Len(q) : q[k] # Zero}}
      mn == CHOOSE x \in lims : \A y \in lims : RLe(x, y)
  IN RMul(cfl, mn)

Euler(xf, q, dt, recon, model, dev) == VAdd(q, VScale(dt, Res(xf, q, recon, model, dev)))
StepOf(integ, xf, q, dt, recon, model, dev) ==
  CASE integ = "explicit" -> Euler(xf, q, dt, recon, model, dev)
    [] integ = "rk2_heun" -> LET q1 == Euler(xf, q, dt, recon, model, dev)
                             IN VAdd(VScale(Half, q), VScale(Half, Euler(xf, q1, dt, recon, model, dev)))
    [] integ = "rk3ssp" -> LET q1 == Euler(xf, q, dt, recon, model, dev)
                               q2 == VAdd(VScale(Q(3, 4), q), VScale(Q(1, 4), Euler(xf, q1, dt, recon, model, dev)))
                           IN VAdd(VScale(Q(1, 3), q), VScale(Q(2, 3), Euler(xf, q2, dt, recon, model, dev)))

MaxPrinciple(qo, qn) == RLe(VMax(qn), VMax(qo)) /\ RLe(VMin(qo), VMin(qn))
TVD(qo, qn) == RLe(TV(qn), TV(qo))
=============================================================================
