SPECIFICATION Spec
CONSTANTS
  Scripts <- ScriptsC07Neg
  Kinds = {"onestep", "implicit", "gear"}
  DtProfiles = {"c4", "var"}
  T0s <- T0sNeg
  Deviations = {"ZeroTottimeIgnored"}
INVARIANT InvC07_advance
INVARIANT InvC07_nit
INVARIANT InvC07_times
INVARIANT InvC07_ontraj
INVARIANT InvC07_finite
INVARIANT InvC08_pure
INVARIANT InvC08_fresh
INVARIANT InvC08_counters
PROPERTY MainAdvancesByDt
PROPERTY NitCountsMainSteps
PROPERTY CallerFieldUntouched
PROPERTY SaveIndexMonotone
CONSTRAINT DevBound
CHECK_DEADLOCK FALSE
