"""Free algebras in which the REAL integrator code is executed (no flowdyn source is touched):
Lin  -- formal linear combinations of symbols with exact Fraction coefficients,
Poly -- polynomials in one formal variable z with exact Fraction coefficients."""
from fractions import Fraction
import numbers
import numpy as np


def _frac(x):
    if isinstance(x, Fraction):
        return x
    if isinstance(x, (int, np.integer)):
        return Fraction(int(x))
    if isinstance(x, (float, np.floating)):
        return Fraction(float(x))
    raise TypeError("not a scalar: %r" % (x,))


def _isscalar(x):
    return isinstance(x, (int, float, Fraction, np.integer, np.floating))


class Lin:
    __array_ufunc__ = None
    __slots__ = ("t",)

    def __init__(self, terms=None):
        self.t = {k: v for k, v in (terms or {}).items() if v != 0}

    @staticmethod
    def sym(name):
        return Lin({name: Fraction(1)})

    def coef(self, name):
        return self.t.get(name, Fraction(0))

    def __add__(self, o):
        if isinstance(o, Lin):
            d = dict(self.t)
            for k, v in o.t.items():
                d[k] = d.get(k, 0) + v
            return Lin(d)
        if _isscalar(o) and o == 0:
            return self
        return NotImplemented
    __radd__ = __add__

    def __neg__(self):
        return Lin({k: -v for k, v in self.t.items()})

    def __sub__(self, o):
        return self + (-o)

    def __rsub__(self, o):
        return (-self) + o

    def __mul__(self, o):
        if _isscalar(o):
            f = _frac(o)
            return Lin({k: v * f for k, v in self.t.items()})
        return NotImplemented
    __rmul__ = __mul__

    def __truediv__(self, o):
        if _isscalar(o):
            f = _frac(o)
            return Lin({k: v / f for k, v in self.t.items()})
        return NotImplemented

    def __eq__(self, o):
        return isinstance(o, Lin) and self.t == o.t

    def __hash__(self):
        return hash(frozenset(self.t.items()))

    def __repr__(self):
        return "Lin(%s)" % ", ".join("%s*%s" % (v, k) for k, v in sorted(self.t.items()))


class Poly:
    __array_ufunc__ = None
    __slots__ = ("c",)

    def __init__(self, c=()):
        c = [Fraction(x) for x in c]
        while c and c[-1] == 0:
            c.pop()
        self.c = c

    def __add__(self, o):
        if _isscalar(o):
            o = Poly([_frac(o)])
        if isinstance(o, Poly):
            n = max(len(self.c), len(o.c))
            return Poly([(self.c[i] if i < len(self.c) else 0) + (o.c[i] if i < len(o.c) else 0) for i in range(n)])
        return NotImplemented
    __radd__ = __add__

    def __neg__(self):
        return Poly([-x for x in self.c])

    def __sub__(self, o):
        return self + (-o)

    def __rsub__(self, o):
        return (-self) + o

    def __mul__(self, o):
        if _isscalar(o):
            f = _frac(o)
            return Poly([x * f for x in self.c])
        if isinstance(o, Poly):
            out = [Fraction(0)] * (len(self.c) + len(o.c))
            for i, a in enumerate(self.c):
                for j, b in enumerate(o.c):
                    out[i + j] += a * b
            return Poly(out)
        return NotImplemented
    __rmul__ = __mul__

    def __truediv__(self, o):
        if _isscalar(o):
            return Poly([x / _frac(o) for x in self.c])
        return NotImplemented

    def __repr__(self):
        return "Poly(%s)" % self.c


def objarray(items):
    a = np.empty(len(items), dtype=object)
    for i, x in enumerate(items):
        a[i] = x
    return a
