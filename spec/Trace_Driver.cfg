SPECIFICATION TraceSpec
CONSTANTS
  Scripts <- AnyScripts
  Kinds <- AnyKinds
  DtProfiles <- AnyProfiles
  T0s <- AnyT0s
  Deviations = {}
CHECK_DEADLOCK FALSE
