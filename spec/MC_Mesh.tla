------------------------------- MODULE MC_Mesh -------------------------------
EXTENDS Mesh
CONSTANTS MaxN, MaxNx
VARIABLES kind, xf, lo, hi, par, nx, ny
vars == <<kind, xf, lo, hi, par, nx, ny>>
Lens == {Q(1, 2), One, R(3), Q(5, 4)}
X0s == {Zero, R(-2), Q(1, 4)}
Ratios == {Q(1, 2), One, R(2), R(3)}
Props == {<<1, 1>>, <<1, 2>>, <<2, 1>>, <<1, 3>>}
Init ==
  \/ /\ kind = "uni" /\ \E n \in 1..MaxN : \E L \in Lens : \E x0 \in X0s :
          /\ xf = Uni(n, L, x0) /\ lo = x0 /\ hi = RAdd(x0, L) /\ par = <<n>>
     /\ nx = 0 /\ ny = 0
  \/ /\ kind = "refined" /\ \E n \in 1..MaxN : \E L \in Lens : \E r \in Ratios : \E p \in Props :
          /\ xf = Refined(n, L, r, p[1], p[2]) /\ lo = Zero /\ hi = L /\ par = <<n, r, p[1], p[2]>>
     /\ nx = 0 /\ ny = 0
  \/ /\ kind = "2d" /\ nx \in 1..MaxNx /\ ny \in 1..MaxNx
     /\ xf = <<>> /\ lo = Zero /\ hi = Zero /\ par = <<>>
Next == UNCHANGED vars
Spec == Init /\ [][Next]_vars

Partition1D == kind # "2d" => ValidPartition(xf, lo, hi) /\ Len(xf) = par[1] + 1 /\ AvgOfConst(xf, Q(7, 3))
RefinedZones == kind = "refined" =>
                  LET n == par[1] a == par[3] b == par[4] IN
                  ((n * a) % (a + b) = 0) => TwoZones(xf, (n * a) \div (a + b), par[2])
T2 == [t \in Tags |-> IoBc(nx, ny, t)]
O2 == [t \in Tags |-> Orient(t)]
N2 == [t \in Tags |-> Normal(t)]
Inc2 == [f \in 0..(NFaces(nx, ny) - 1) |-> Incidence(nx, ny, f)]
Tables2D == kind = "2d" =>
              /\ Disjoint(T2) /\ Covers(T2, BoundaryFaces(nx, ny)) /\ OrientationOK(T2, O2, Inc2)
              /\ NormalOK(T2, O2, N2, nx, ny)
              /\ Cardinality(BoundaryFaces(nx, ny)) = 2 * nx + 2 * ny
              /\ \A t \in Tags : Cardinality(T2[t]) = IF t \in {"left", "right"} THEN ny ELSE nx
(* every cell has exactly four faces, every interior face two cells *)
CellFaces == kind = "2d" =>
               \A c \in 0..(nx * ny - 1) :
                  Cardinality({f \in 0..(NFaces(nx, ny) - 1) : c \in {Inc2[f][1], Inc2[f][2]}}) = 4
=============================================================================
