----------------------------- MODULE Judge_Flux -----------------------------
(***************************************************************************)
(* C02 judge: the REAL numerical fluxes against the PHYSICAL flux and       *)
(* against themselves (metamorphic), never against a transcription of the   *)
(* numerical flux (that comparison is DRIFT only).                          *)
(*  "exact"  exact-point states (rationals): observed flux identified with  *)
(*           a rational (harness: limit_denominator + residual in ulps);    *)
(*           TLC computes the physical flux exactly and decides the         *)
(*           supercritical regime exactly;                                  *)
(*  "tok"    random float states: defects measured in ulps by the harness   *)
(*           in exact Fraction arithmetic.                                  *)
(***************************************************************************)
EXTENDS Fluxes, Json, IOUtils, SequencesExt
TolRoundoff == 4194304
RatTol == 64          \* ulps between the observed float and the rational it is identified with
Recs == ndJsonDeserialize(IOEnv.JUDGE_IN)
VARIABLES i, bad

Eu(w) == [rho |-> FromPair(w[1]), u |-> FromPair(w[2]), c |-> FromPair(w[3])]
Sw(w) == [c |-> FromPair(w[1]), u |-> FromPair(w[2])]
ObsOK(r) == \A k \in 1..Len(r.err) : r.err[k] <= RatTol
Obs(r) == VecFrom(r.flux)

PhysOf(r, w) == CASE r.model = "euler" -> EuPhys(FromPair(r.par), Eu(w))
                  [] r.model = "sw" -> SwPhys(FromPair(r.par), Sw(w))
                  [] r.model = "convection" -> ConvPhys(FromPair(r.par), FromPair(w[1]))
                  [] r.model = "burgers" -> BurgersPhys(FromPair(w[1]))

(* exact decision of the upwind regime: 1 right-going (flux of L), -1 left-going (flux of R), 0 not supercritical *)
Regime(r) ==
  CASE r.model = "euler" -> IF SuperRight(FromPair(r.par), Eu(r.L), Eu(r.R)) THEN 1
                            ELSE IF SuperLeft(FromPair(r.par), Eu(r.L), Eu(r.R)) THEN -1 ELSE 0
    [] r.model = "sw" -> IF SwSuperRight(Sw(r.L), Sw(r.R)) THEN 1 ELSE IF SwSuperLeft(Sw(r.L), Sw(r.R)) THEN -1 ELSE 0
    [] r.model = "convection" -> IF RSign(FromPair(r.par)) > 0 THEN 1 ELSE IF RSign(FromPair(r.par)) < 0 THEN -1 ELSE 0
    [] r.model = "burgers" -> LET a == FromPair(r.L[1]) b == FromPair(r.R[1]) IN
                              IF RSign(a) > 0 /\ RSign(b) > 0 THEN 1 ELSE IF RSign(a) < 0 /\ RSign(b) < 0 THEN -1 ELSE 0

SpecFlux(r) ==   \* the transcription (DRIFT only); <<>> where it is not evaluated
  CASE r.model = "euler" /\ r.name = "centered" -> EuCentered(FromPair(r.par), Eu(r.L), Eu(r.R))
    [] r.model = "euler" /\ r.name = "centeredmassflow" -> EuCenteredMassflow(FromPair(r.par), Eu(r.L), Eu(r.R))
    [] r.model = "sw" /\ r.name = "centered" -> SwCentered(FromPair(r.par), Sw(r.L), Sw(r.R))
    [] r.model = "sw" /\ r.name = "hll" -> SwHll(FromPair(r.par), Sw(r.L), Sw(r.R))
    [] r.model = "sw" /\ r.name = "rusanov" -> SwRusanov(FromPair(r.par), Sw(r.L), Sw(r.R), {})
    [] r.model = "convection" -> ConvFlux(FromPair(r.par), FromPair(r.L[1]), FromPair(r.R[1]))
    [] r.model = "burgers" -> BurgersFlux(FromPair(r.L[1]), FromPair(r.R[1]), {})
    [] OTHER -> <<>>

FailedExact(r) ==
  {c \in {"C02_consistency", "C02_upwind", "DRIFT_flux"} :
     ~ CASE c = "C02_consistency" -> (r.L = r.R) => (ObsOK(r) /\ Obs(r) = PhysOf(r, r.L))
         [] c = "C02_upwind" -> (r.upwindflux = 1) =>
                                   LET g == Regime(r) IN
                                   /\ (g = 1 => ObsOK(r) /\ Obs(r) = PhysOf(r, r.L))
                                   /\ (g = -1 => ObsOK(r) /\ Obs(r) = PhysOf(r, r.R))
         [] c = "DRIFT_flux" -> (ObsOK(r) /\ r.small = 1 /\ SpecFlux(r) # <<>>) => Obs(r) = SpecFlux(r)}

FailedTok(r) ==
  {c \in {"C02_consistency", "C02_mirror", "C02_upwind", "C02_local", "C02_homogeneous", "C02_isotropy"} :
     ~ CASE c = "C02_consistency" -> r.consist <= TolRoundoff
         [] c = "C02_mirror" -> r.mirror <= TolRoundoff
         [] c = "C02_upwind" -> r.upwind <= TolRoundoff
         [] c = "C02_local" -> r.local = 0
         [] c = "C02_homogeneous" -> r.homog = 0
         [] c = "C02_isotropy" -> r.iso <= TolRoundoff}

Failed(r) == CASE r.kind = "exact" -> FailedExact(r) [] r.kind = "tok" -> FailedTok(r)
               [] r.kind = "raised" -> {"C02_raised"} [] OTHER -> {"unknown_record"}
Init == i = 0 /\ bad = <<>>
Step == /\ i < Len(Recs) /\ i' = i + 1
        /\ bad' = bad \o SetToSeq({[id |-> Recs[i'].id, clause |-> c] : c \in Failed(Recs[i'])})
Fin  == /\ i = Len(Recs) /\ ndJsonSerialize(IOEnv.JUDGE_OUT, bad) /\ PrintT(<<"JUDGED", i, Len(bad)>>)
        /\ i' = i + 1 /\ bad' = bad
Next == Step \/ Fin
Spec == Init /\ [][Next]_<<i, bad>>
=============================================================================
