------------------------------ MODULE Implicit ------------------------------
(***************************************************************************)
(* The implicit integrators of flowdyn.integration (implicit/backwardeuler, *)
(* trapezoidal/cranknicolson, gear) on a linear problem dQ/dt = A Q, in     *)
(* exact rational arithmetic, shaped like the code:                         *)
(*                                                                         *)
(*   CalcJacobian   finite differences of the space operator, column by     *)
(*                  column (skipped when the model is linear and a          *)
(*                  Jacobian is cached on the solver object)                *)
(*   CalcRhs        residual := A Q                                         *)
(*   SolveImplicit  ((1+xi)/dt I - theta J) x = residual + xi * last ;      *)
(*                  residual := x / dt                                      *)
(*   AddRes         Q += dt * residual ; time += dt                         *)
(*   gear           first step = trapezoidal.step (which already adds),     *)
(*                  later (theta, xi) = (1, 1/2); last := residual          *)
(*                                                                         *)
(* dt is a scalar or, with the local-time-step directive, one value per    *)
(* cell (dtmode = "local": hv[i] = hh * Factor(i)): the diagonal of the     *)
(* system is (1+xi)/dt_i, the solution is divided by dt_i, cell i advances  *)
(* by dt_i and the time by min(dt).  The defining relations then carry      *)
(* D = diag(dt): (I - D A) Q+ = Q, etc.                                     *)
(*                                                                         *)
(* and the relations that DEFINE the schemes (C06), as invariants.          *)
(***************************************************************************)
EXTENDS Rat

CONSTANTS Ns,          \* set of problem sizes
          DtOverDx,    \* set of rationals
          Operators,   \* subset of {"upwind", "central", "kappa13"}
          ImplKinds,   \* subset of {"implicit", "cranknicolson", "gear"}
          MaxSteps,
          DtModes,     \* subset of {"global", "local"}
          ImplDeviations   \* {} or subset of {"GearDoubleAdd", "NoisyJacobian", "RowScaledLocal"}

VARIABLES n, op, ikind, hh, dtmode,   \* fixed per behaviour: size, operator, integrator, dt (dx = 1), scalar / per-cell dt
          q, qprev, qprev2,      \* current state and the two before it (history, for the relations)
          time, nsteps,
          jac, jacCached,        \* Jacobian on the solver object
          resid, last, hasLast,  \* self.residual, self._lastresidual
          pc, first              \* first: this step is gear's start-up

ivars == <<n, op, ikind, hh, dtmode, q, qprev, qprev2, time, nsteps, jac, jacCached, resid, last, hasLast, pc, first>>

(* circulant operators on n cells, dx = 1, convection speed +1 *)
Wrap(i, m) == ((((i - 1) % m) + m) % m) + 1
Stencil(o) == CASE o = "upwind"  -> [d \in {-2, -1, 0, 1} |-> CASE d = -1 -> One [] d = 0 -> R(-1) [] OTHER -> Zero]
                [] o = "central" -> [d \in {-2, -1, 0, 1} |-> CASE d = -1 -> Half [] d = 1 -> Q(-1, 2) [] OTHER -> Zero]
                [] o = "kappa13" -> [d \in {-2, -1, 0, 1} |-> CASE d = -2 -> Q(-1, 6) [] d = -1 -> One
                                                                 [] d = 0 -> Q(-1, 2) [] d = 1 -> Q(-1, 3)]
AMat(o, m) == LET st == Stencil(o) IN
              [i \in 1..m |-> [j \in 1..m |->
                 RSum([k \in 1..4 |-> IF Wrap(i + (k - 3), m) = j THEN st[k - 3] ELSE Zero])]]
Rhs(v) == MVec(AMat(op, n), v)

Theta == IF ikind = "implicit" THEN One ELSE IF ikind = "cranknicolson" \/ first THEN Half ELSE One
Xi    == IF ikind = "gear" /\ ~first THEN Half ELSE Zero

States(m) == [1..m -> {R(-1), Zero, One}]

(* per-cell steps: hh times a factor that differs from cell to cell (minimum factor 1, so min(dt) = hh) *)
Factor(i) == CASE i % 3 = 1 -> R(2) [] i % 3 = 2 -> One [] OTHER -> Q(3, 2)
HV == [i \in 1..n |-> IF dtmode = "local" THEN RMul(hh, Factor(i)) ELSE hh]
RowScale(v, M) == [i \in 1..Len(M) |-> VScale(v[i], M[i])]          \* diag(v) M
DiagOf(v) == [i \in 1..Len(v) |-> [j \in 1..Len(v) |-> IF i = j THEN v[i] ELSE Zero]]
VInv(v) == [i \in 1..Len(v) |-> RInv(v[i])]

IInit == /\ n \in Ns /\ op \in Operators /\ ikind \in ImplKinds /\ hh \in DtOverDx /\ dtmode \in DtModes
         /\ q \in States(n) /\ qprev = q /\ qprev2 = q
         /\ time = Zero /\ nsteps = 0
         /\ jac = ZeroM(n, n) /\ jacCached = FALSE
         /\ resid = [i \in 1..n |-> Zero] /\ last = [i \in 1..n |-> Zero] /\ hasLast = FALSE
         /\ pc = "jac" /\ first = (ikind = "gear")

(* finite-difference Jacobian: column j = (R(q + eps e_j) - R(q)) / eps; exact for a linear operator *)
Eps == Q(1, 8)
FDJac == [i \in 1..n |-> [j \in 1..n |->
            LET qe == [k \in 1..n |-> IF k = j THEN RAdd(q[k], Eps) ELSE q[k]]
            IN RDiv(RSub(Rhs(qe)[i], Rhs(q)[i]), Eps)]]
CalcJacobian == /\ pc = "jac" /\ nsteps < MaxSteps
                /\ IF jacCached THEN UNCHANGED jac          \* linear model: `return` (jacobian_use present)
                   ELSE jac' = IF "NoisyJacobian" \in ImplDeviations
                               THEN MScale(Q(9, 8), FDJac) ELSE FDJac
                /\ jacCached' = TRUE
                /\ pc' = "rhs"
                /\ UNCHANGED <<n, op, ikind, hh, dtmode, q, qprev, qprev2, time, nsteps, resid, last, hasLast, first>>

CalcRhs == /\ pc = "rhs" /\ resid' = Rhs(q) /\ pc' = "solve"
           /\ UNCHANGED <<n, op, ikind, hh, dtmode, q, qprev, qprev2, time, nsteps, jac, jacCached, last, hasLast, first>>

SolveImplicit ==
  /\ pc = "solve"
  /\ LET mat == MSub(DiagOf(VScale(RAdd(One, Xi), VInv(HV))), MScale(Theta, jac))
         rhs == IF Xi = Zero THEN resid ELSE VAdd(resid, VScale(Xi, last))
         x   == Solve(mat, rhs)
         \* seeded deviation: unit diagonal, each ROW scaled by its step (the unknown is then dQ/dt, which needs COLUMN scaling)
         matRS == MSub(MScale(RAdd(One, Xi), Ident(n)), MScale(Theta, RowScale(HV, jac)))
     IN resid' = IF "RowScaledLocal" \in ImplDeviations THEN Solve(matRS, rhs) ELSE VHad(VInv(HV), x)
  /\ pc' = "add"
  /\ UNCHANGED <<n, op, ikind, hh, dtmode, q, qprev, qprev2, time, nsteps, jac, jacCached, last, hasLast, first>>

AddRes == /\ pc = "add"
          /\ LET twice == first /\ "GearDoubleAdd" \in ImplDeviations
                 inc == VHad(IF twice THEN VScale(R(2), HV) ELSE HV, resid)
             IN /\ q' = VAdd(q, inc)
                /\ time' = RAdd(time, IF twice THEN RMul(R(2), hh) ELSE hh)
          /\ qprev' = q /\ qprev2' = qprev
          /\ nsteps' = nsteps + 1
          /\ last' = IF ikind = "gear" THEN resid ELSE last
          /\ hasLast' = (ikind = "gear")
          /\ first' = FALSE
          /\ pc' = "jac"
          /\ UNCHANGED <<n, op, ikind, hh, dtmode, jac, jacCached, resid>>

INext == CalcJacobian \/ CalcRhs \/ SolveImplicit \/ AddRes
ISpec == IInit /\ [][INext]_ivars

(* ---- the defining relations (C06), checked after every completed step ---- *)
A == AMat(op, n)
I == Ident(n)
AfterStep == pc = "jac" /\ nsteps > 0
DA == RowScale(HV, A)                      \* diag(dt) A  ( = dt A for a scalar step)
RelImplicit == MVec(MSub(I, DA), q) = qprev
RelCN == MVec(MSub(I, MScale(Half, DA)), q) = MVec(MAdd(I, MScale(Half, DA)), qprev)
RelBDF2 == VAdd(VSub(VScale(R(3), q), VScale(R(4), qprev)), qprev2) = VScale(R(2), MVec(DA, q))

DefiningRelation ==
  AfterStep => CASE ikind = "implicit" -> RelImplicit
                 [] ikind = "cranknicolson" -> RelCN
                 [] ikind = "gear" -> IF nsteps = 1 THEN RelCN ELSE RelBDF2
TimeAdvances == time = RMul(R(nsteps), hh)
(* conservation: the columns of a conservative operator sum to zero, so sum(q) is invariant (C01 for implicit solves) *)
Conserved == dtmode = "global" => RSum(q) = RSum(qprev)      \* (local steps trade time accuracy and conservation for speed)
(* no growth for Re z <= 0 (upwind: normal circulant, eigenvalues in the left half plane): the l2 norm never grows *)
NoGrowth == (dtmode = "global" /\ op = "upwind" /\ ikind # "gear" /\ nsteps = 1 /\ n <= 3 /\ RLe(hh, R(4))) => RLe(Dot(q, q), Dot(qprev, qprev))
(* the FD Jacobian of a linear operator is the operator *)
JacobianExact == (jacCached /\ "NoisyJacobian" \notin ImplDeviations) => jac = A
=============================================================================
