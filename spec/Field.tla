------------------------------- MODULE Field -------------------------------
(***************************************************************************)
(* Value semantics of flowdyn.field: fdata objects (constructor, copy,      *)
(* set, interpol_t, diff, set_time, reset, zero_datalist), the arrays they  *)
(* own, the arrays the user handed in, and two fieldlist containers (which  *)
(* hold REFERENCES; append, extend).                                        *)
(*                                                                         *)
(* The heap is explicit: `arr` maps array identities to contents, a field   *)
(* is a record pointing to the array it owns.  What the driver relies on    *)
(* (C07: "the caller's initial field is never modified", C08: results are   *)
(* independent objects) is the invariant NoAlias: no two fields share an    *)
(* array and no field shares an array with the user -- every operation      *)
(* that builds a field copies.  Writes through one handle are then visible  *)
(* through that handle only, except through the fieldlist, which shows the  *)
(* object itself.                                                           *)
(*                                                                         *)
(* Conformance: TLC enumerates every operation sequence of bounded length   *)
(* and exports it with the specification's observable state after each      *)
(* operation; harness/field_model.py replays the sequences on the real      *)
(* objects and compares after every step (values, time, it, list view).     *)
(***************************************************************************)
EXTENDS Integers, Sequences, FiniteSets, TLC, Json, CSV, IOUtils

CONSTANTS Vals,      \* values written into arrays
          Times,     \* times given to fields
          MaxFld, MaxArr, MaxOps,
          FieldDeviations    \* {} or subset of {"CopySharesData", "SetByReference"}

VARIABLES arr,    \* heap: sequence of arrays (each a sequence of 2 integers); the index is the array's identity
          usr,    \* identities of the arrays the user holds (created by the user, passed to constructors)
          fld,    \* sequence of field objects [a: array identity, t: time, it: iteration stamp]
          lst,    \* the two fieldlists: each a sequence of field identities (references)
          hist    \* operations so far, each with the observable state it left

fvars == <<arr, usr, fld, lst, hist>>

N == 2     \* cells

Obs(a, f, l) == [flds |-> [k \in 1..Len(f) |-> [v |-> a[f[k].a], t |-> f[k].t, it |-> f[k].it]],
                 uarr |-> [k \in 1..Len(a) |-> a[k]],
                 list |-> l[1],
                 times |-> [k \in 1..Len(l[1]) |-> f[l[1][k]].t],
                 its |-> [k \in 1..Len(l[1]) |-> f[l[1][k]].it],
                 list2 |-> l[2],
                 times2 |-> [k \in 1..Len(l[2]) |-> f[l[2][k]].t]]

Log(op, args, a, f, l) == hist' = Append(hist, [op |-> op, args |-> args, obs |-> Obs(a, f, l)])

Init == /\ arr = << <<0, 2>>, <<0, 2>> >>            \* the user's array and the copy the first field owns
        /\ usr = {1}
        /\ fld = << [a |-> 2, t |-> 0, it |-> -1] >>
        /\ lst = << <<>>, <<>> >>
        /\ hist = <<>>

Room == Len(hist) < MaxOps
RoomF == Room /\ Len(fld) < MaxFld /\ Len(arr) < MaxArr

(* user code: a = np.array([v1, v2]) *)
NewArr(v1, v2) == /\ Room /\ Len(arr) < MaxArr
                  /\ arr' = Append(arr, <<v1, v2>>) /\ usr' = usr \cup {Len(arr) + 1}
                  /\ UNCHANGED <<fld, lst>> /\ Log("newarr", <<v1, v2>>, arr', fld, lst)

(* fdata(model, mesh, [a], t): the constructor copies the array it is given *)
NewField(a, t) == /\ RoomF /\ a \in usr
                  /\ arr' = Append(arr, arr[a])
                  /\ fld' = Append(fld, [a |-> Len(arr) + 1, t |-> t, it |-> -1])
                  /\ UNCHANGED <<usr, lst>> /\ Log("newfield", <<a, t>>, arr', fld', lst)

(* f.copy() *)
Copy(f) == /\ RoomF /\ f \in 1..Len(fld)
           /\ IF "CopySharesData" \in FieldDeviations
              THEN /\ arr' = arr /\ fld' = Append(fld, fld[f])
              ELSE /\ arr' = Append(arr, arr[fld[f].a])
                   /\ fld' = Append(fld, [fld[f] EXCEPT !.a = Len(arr) + 1])
           /\ UNCHANGED <<usr, lst>> /\ Log("copy", <<f>>, arr', fld', lst)

(* f.set(g): f takes the values, time and stamp of g -- by value, whatever the docstring says *)
Set(f, g) == /\ Room /\ Len(arr) < MaxArr /\ f \in 1..Len(fld) /\ g \in 1..Len(fld) /\ f # g
             /\ IF "SetByReference" \in FieldDeviations
                THEN /\ arr' = arr /\ fld' = [fld EXCEPT ![f] = fld[g]]
                ELSE /\ arr' = Append(arr, arr[fld[g].a])
                     /\ fld' = [fld EXCEPT ![f] = [fld[g] EXCEPT !.a = Len(arr) + 1]]
             /\ UNCHANGED <<usr, lst>> /\ Log("set", <<f, g>>, arr', fld', lst)

(* user code writes through a handle: a[i] = v  /  f.data[0][i] = v *)
WriteArr(a, i, v) == /\ Room /\ a \in usr /\ arr[a][i] # v
                     /\ arr' = [arr EXCEPT ![a][i] = v]
                     /\ UNCHANGED <<usr, fld, lst>> /\ Log("writearr", <<a, i, v>>, arr', fld, lst)
WriteFld(f, i, v) == /\ Room /\ f \in 1..Len(fld) /\ arr[fld[f].a][i] # v
                     /\ arr' = [arr EXCEPT ![fld[f].a][i] = v]
                     /\ UNCHANGED <<usr, fld, lst>> /\ Log("writefld", <<f, i, v>>, arr', fld, lst)

SetTime(f, t) == /\ Room /\ f \in 1..Len(fld) /\ fld[f].t # t
                 /\ fld' = [fld EXCEPT ![f].t = t]
                 /\ UNCHANGED <<arr, usr, lst>> /\ Log("settime", <<f, t>>, arr, fld', lst)
Stamp(f, n) == /\ Room /\ f \in 1..Len(fld) /\ fld[f].it # n
               /\ fld' = [fld EXCEPT ![f].it = n]
               /\ UNCHANGED <<arr, usr, lst>> /\ Log("stamp", <<f, n>>, arr, fld', lst)

(* f.interpol_t(g, t): new field, linear in time between f and g (exact on this lattice or not enabled) *)
Interpol(f, g, t) ==
  /\ RoomF /\ f \in 1..Len(fld) /\ g \in 1..Len(fld) /\ fld[g].t # fld[f].t
  /\ LET sg  == IF fld[g].t < fld[f].t THEN -1 ELSE 1
         den == sg * (fld[g].t - fld[f].t)            \* positive
         num == sg * (t - fld[f].t)
         af == arr[fld[f].a]
         ag == arr[fld[g].a]
     IN /\ \A i \in 1..N : (num * (ag[i] - af[i])) % den = 0
        /\ arr' = Append(arr, [i \in 1..N |-> af[i] + (num * (ag[i] - af[i])) \div den])
        /\ fld' = Append(fld, [a |-> Len(arr) + 1, t |-> t, it |-> -1])
  /\ UNCHANGED <<usr, lst>> /\ Log("interpol", <<f, g, t>>, arr', fld', lst)

(* f.diff(g): new field f - g, time difference, no stamp *)
Diff(f, g) == /\ RoomF /\ f \in 1..Len(fld) /\ g \in 1..Len(fld)
              /\ arr' = Append(arr, [i \in 1..N |-> arr[fld[f].a][i] - arr[fld[g].a][i]])
              /\ fld' = Append(fld, [a |-> Len(arr) + 1, t |-> fld[f].t - fld[g].t, it |-> -1])
              /\ UNCHANGED <<usr, lst>> /\ Log("diff", <<f, g>>, arr', fld', lst)

(* f.reset(t, it): time and stamp together *)
Reset(f, t, n) == /\ Room /\ f \in 1..Len(fld) /\ (fld[f].t # t \/ fld[f].it # n)
                  /\ fld' = [fld EXCEPT ![f].t = t, ![f].it = n]
                  /\ UNCHANGED <<arr, usr, lst>> /\ Log("reset", <<f, t, n>>, arr, fld', lst)

(* a = f.zero_datalist()[0]: a fresh array of zeros of the same shape, owned by the user, aliasing nothing *)
Zero(f) == /\ Room /\ Len(arr) < MaxArr /\ f \in 1..Len(fld)
           /\ arr' = Append(arr, [i \in 1..N |-> 0]) /\ usr' = usr \cup {Len(arr) + 1}
           /\ UNCHANGED <<fld, lst>> /\ Log("zero", <<f>>, arr', fld, lst)

(* flist.append(f): the list holds the object *)
LAppend(L, f) == /\ Room /\ f \in 1..Len(fld) /\ Len(lst[L]) < 3
                 /\ lst' = [lst EXCEPT ![L] = Append(@, f)]
                 /\ UNCHANGED <<arr, usr, fld>> /\ Log("lappend", <<L, f>>, arr, fld, lst')

(* flist.extend(other): the references of the other list are appended (a list may be extended by itself) *)
LExtend(L, M) == /\ Room /\ lst[M] # <<>> /\ Len(lst[L]) + Len(lst[M]) <= 4
                 /\ lst' = [lst EXCEPT ![L] = @ \o lst[M]]
                 /\ UNCHANGED <<arr, usr, fld>> /\ Log("lextend", <<L, M>>, arr, fld, lst')

Next == \/ \E v1, v2 \in Vals : NewArr(v1, v2)
        \/ \E a \in 1..MaxArr, t \in Times : NewField(a, t)
        \/ \E f \in 1..MaxFld : Copy(f) \/ Zero(f) \/ (\E L \in 1..2 : LAppend(L, f))
        \/ \E L, M \in 1..2 : LExtend(L, M)
        \/ \E f \in 1..MaxFld, t \in Times, n \in {-1, 3} : Reset(f, t, n)
        \/ \E f, g \in 1..MaxFld : Set(f, g) \/ Diff(f, g)
        \/ \E a \in 1..MaxArr, i \in 1..N, v \in Vals : WriteArr(a, i, v)
        \/ \E f \in 1..MaxFld, i \in 1..N, v \in Vals : WriteFld(f, i, v)
        \/ \E f \in 1..MaxFld, t \in Times : SetTime(f, t)
        \/ \E f \in 1..MaxFld, n \in {0, 3} : Stamp(f, n)
        \/ \E f, g \in 1..MaxFld, t \in Times : Interpol(f, g, t)

Spec == Init /\ [][Next]_fvars

-----------------------------------------------------------------------------
(* every field owns its array: no sharing between fields, none with the user *)
NoAlias == /\ \A f, g \in 1..Len(fld) : f # g => fld[f].a # fld[g].a
           /\ \A f \in 1..Len(fld) : fld[f].a \notin usr
(* a write through one handle changes that handle's array only (action property) *)
WritesAreLocal == [][\A k \in 1..Len(arr) : (k \in DOMAIN arr' /\ arr'[k] # arr[k]) =>
                        \/ (\E f \in 1..Len(fld) : fld[f].a = k /\ hist'[Len(hist')].op = "writefld" /\ hist'[Len(hist')].args[1] = f)
                        \/ (k \in usr /\ hist'[Len(hist')].op = "writearr" /\ hist'[Len(hist')].args[1] = k)]_fvars
(* the list shows the objects themselves *)
ListView == \A L \in 1..2 : \A k \in 1..Len(lst[L]) : lst[L][k] \in 1..Len(fld)

GenFile == IF "GEN_FILE" \in DOMAIN IOEnv THEN IOEnv.GEN_FILE ELSE ""
Export == (Len(hist) = MaxOps /\ GenFile # "") => CSVWrite("%1$s", <<ToJson(hist)>>, GenFile)
=============================================================================
