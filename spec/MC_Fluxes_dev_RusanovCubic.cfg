SPECIFICATION Spec
CONSTANTS
  Rhos <- RhosQ
  Us <- UsQ
  Cs <- CsQ
  Gammas <- GammasQ
  Gs <- GsQ
  FluxDeviations = {"RusanovCubic"}
INVARIANT Consistency
INVARIANT Mirror
INVARIANT Upwind
INVARIANT Eigen
CHECK_DEADLOCK FALSE
