SPECIFICATION ISpec
CONSTANTS
  Ns = {2, 3, 4}
  DtOverDx <- HsFull
  Operators = {"upwind", "central", "kappa13"}
  ImplKinds = {"implicit", "cranknicolson", "gear"}
  DtModes = {"global"}
  MaxSteps = 1
  ImplDeviations = {}
INVARIANT DefiningRelation
INVARIANT TimeAdvances
INVARIANT Conserved
INVARIANT NoGrowth
INVARIANT JacobianExact
CHECK_DEADLOCK FALSE
