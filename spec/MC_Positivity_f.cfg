SPECIFICATION Spec
CONSTANTS
  PosDeviations = {}
  SwCs <- SwCsWide
  SwUs <- SwUsWide
  EuRhos <- EuRhosDef
  EuUs <- EuUsDef
  EuCs <- EuCsDef
INVARIANT Positive
INVARIANT PositiveWall
CHECK_DEADLOCK FALSE
