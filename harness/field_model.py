"""Value semantics of flowdyn.field (fdata, fieldlist) against spec/Field.tla: TLC enumerates every operation sequence of
bounded length (and samples longer ones), each with the specification's observable state after every operation; the sequences
are replayed on the REAL objects and compared step by step.  Outside the 20 listed properties: mismatches are reported as
DRIFT (informational); the model supports C07 ("the caller's field is never modified") and C08 (results are independent)."""
import json, os
import numpy as np
from . import core, fd
from .driver_obs import FakeModel, FakeMesh


def replay(hist):
    """returns None when the real objects agree with the specification after every operation, else a description"""
    model, mesh = FakeModel(0), FakeMesh(2)
    uarr = {1: np.array([0.0, 2.0])}            # array identity (as in the specification) -> the user's numpy array
    narr = 2                                     # identities handed out so far (1 = user's, 2 = owned by field 1)
    flds = [fd.field.fdata(model, mesh, [uarr[1]], t=0.0)]
    flists = [fd.field.fieldlist(), fd.field.fieldlist()]
    flist = flists[0]
    for step, h in enumerate(hist):
        op, a = h["op"], h["args"]
        try:
            if op == "newarr":
                narr += 1
                uarr[narr] = np.array([float(a[0]), float(a[1])])
            elif op == "newfield":
                narr += 1
                flds.append(fd.field.fdata(model, mesh, [uarr[a[0]]], t=float(a[1])))
            elif op == "copy":
                narr += 1
                flds.append(flds[a[0] - 1].copy())
            elif op == "set":
                narr += 1
                flds[a[0] - 1].set(flds[a[1] - 1])
            elif op == "writearr":
                uarr[a[0]][a[1] - 1] = float(a[2])
            elif op == "writefld":
                flds[a[0] - 1].data[0][a[1] - 1] = float(a[2])
            elif op == "settime":
                flds[a[0] - 1].set_time(float(a[1]))
            elif op == "stamp":
                flds[a[0] - 1].it = int(a[1])
            elif op == "interpol":
                narr += 1
                flds.append(flds[a[0] - 1].interpol_t(flds[a[1] - 1], float(a[2])))
            elif op == "diff":
                narr += 1
                flds.append(flds[a[0] - 1].diff(flds[a[1] - 1]))
            elif op == "reset":
                flds[a[0] - 1].reset(t=float(a[1]), it=int(a[2]))
            elif op == "zero":
                narr += 1
                uarr[narr] = flds[a[0] - 1].zero_datalist()[0]
            elif op == "lappend":
                flists[a[0] - 1].append(flds[a[1] - 1])
            elif op == "lextend":
                flists[a[0] - 1].extend(flists[a[1] - 1])
            else:
                return "unknown operation %s" % op
        except Exception as ex:
            return "step %d %s%s raised %s: %s" % (step + 1, op, a, type(ex).__name__, str(ex)[:80])
        o = h["obs"]
        if len(o["flds"]) != len(flds):
            return "step %d %s%s: %d fields, specification %d" % (step + 1, op, a, len(flds), len(o["flds"]))
        for k, (f, want) in enumerate(zip(flds, o["flds"])):
            got = [float(x) for x in f.data[0]]
            if got != [float(x) for x in want["v"]] or float(f.time) != float(want["t"]) or int(f.it) != int(want["it"]):
                return "step %d %s%s: field %d is (%s, t=%s, it=%s), specification (%s, t=%s, it=%s)" % (
                    step + 1, op, a, k + 1, got, f.time, f.it, want["v"], want["t"], want["it"])
        for ident, arr_ in uarr.items():
            if [float(x) for x in arr_] != [float(x) for x in o["uarr"][ident - 1]]:
                return "step %d %s%s: the user's array %d is %s, specification %s" % (step + 1, op, a, ident, list(arr_), o["uarr"][ident - 1])
        if [float(t) for t in flist.time_array()] != [float(t) for t in o["times"]] or [int(i) for i in flist.it_array()] != [int(i) for i in o["its"]]:
            return "step %d %s%s: fieldlist shows times %s its %s, specification %s %s" % (
                step + 1, op, a, flist.time_array(), flist.it_array(), o["times"], o["its"])
        if [next((i + 1 for i, f in enumerate(flds) if f is s), 0) for s in flist.solutions] != list(o["list"]):
            return "step %d %s%s: fieldlist holds other objects than the specification's %s" % (step + 1, op, a, o["list"])
        if [next((i + 1 for i, f in enumerate(flds) if f is s), 0) for s in flists[1].solutions] != list(o["list2"]) \
                or [float(t) for t in flists[1].time_array()] != [float(t) for t in o["times2"]] or len(flists[1]) != len(o["list2"]):
            return "step %d %s%s: the second fieldlist holds %s, specification %s" % (step + 1, op, a, flists[1].time_array(), o["list2"])
        if len(flist) != len(o["list"]) or any(flist[k] is not flds[o["list"][k] - 1] for k in range(len(flist))):
            return "step %d %s%s: indexing the fieldlist gives other objects than the specification's %s" % (step + 1, op, a, o["list"])
    return None


def read_gen(path):
    out = []
    if not os.path.exists(path):
        return out
    with open(path) as f:
        for line in f:
            line = line.strip()
            if line:
                v = json.loads(line)
                out.append(json.loads(v) if isinstance(v, str) else v)
    return out


def run(rep, tier, wd):
    gen = os.path.join(wd, "field_gen.ndjson")
    if os.path.exists(gen):
        os.remove(gen)
    res = core.tlc("MC_Field", "MC_Field.cfg", workers=1, env={"GEN_FILE": gen}, timeout=1800)
    core.tlc_must_pass(res, "MC_Field")
    rep.add_tlc("MC_Field", res)
    seqs = read_gen(gen)
    if tier == "thorough":
        gen2 = os.path.join(wd, "field_sim.ndjson")
        if os.path.exists(gen2):
            os.remove(gen2)
        res2 = core.tlc("MC_Field", "MC_Field_sim.cfg", workers=1, env={"GEN_FILE": gen2}, timeout=1800,
                        simulate="num=4000", depth=9, seedval=core.seed())
        rep.add_tlc("MC_Field/simulate", res2, counts_as_model=False)
        seqs += read_gen(gen2)
    bad = 0
    for h in seqs:
        why = replay(h)
        if why is not None:
            bad += 1
            if bad <= 5:
                rep.drift.append("flowdyn.field vs Field.tla: " + why)
    rep.extra["field_sequences_replayed"] = len(seqs)
    rep.extra["field_sequences_disagreeing"] = bad
    rep.traces += len(seqs)
    rep.evaluations += sum(len(h) for h in seqs)
    return bad
