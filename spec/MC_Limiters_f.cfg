SPECIFICATION Spec
CONSTANTS
  Bound = 24
  Dens = {1, 3, 4, 7}
INVARIANT Region
INVARIANT Symmetric
INVARIANT Odd
INVARIANT Homogeneous
INVARIANT Idempotent
INVARIANT SecondOrder
CHECK_DEADLOCK FALSE
