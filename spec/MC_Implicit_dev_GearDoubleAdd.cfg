SPECIFICATION ISpec
CONSTANTS
  Ns = {3}
  DtOverDx <- HsQuick
  Operators = {"upwind", "kappa13"}
  ImplKinds = {"implicit", "cranknicolson", "gear"}
  DtModes = {"global", "local"}
  MaxSteps = 2
  ImplDeviations = {"GearDoubleAdd"}
INVARIANT DefiningRelation
INVARIANT TimeAdvances
INVARIANT Conserved
INVARIANT NoGrowth
INVARIANT JacobianExact
CHECK_DEADLOCK FALSE
