----------------------------- MODULE Apa_Scalar -----------------------------
(***************************************************************************)
(* C09 for ALL data and ALL Courant numbers, not a grid (symbolic,          *)
(* Apalache + Z3): the local maximum principle of one forward-Euler step    *)
(* of linear convection (a > 0; a < 0 is its mirror image, C13) on a        *)
(* uniform periodic mesh.                                                   *)
(*                                                                         *)
(*  - first order (extrapol1): u' = u2 - nu (u2 - u1), 0 <= nu <= 1         *)
(*  - MUSCL as in flowdyn.xnum.muscl with ANY limiter whose value lies in   *)
(*    the region of C12 (Limiters.tla / Apa_Limiters.tla): the limited      *)
(*    slopes fA (cell i) and fB (cell i-1) are FREE, constrained only by    *)
(*    the region clauses;  u' = u2 - nu ((u2 + fA/2) - (u1 + fB/2)),        *)
(*    0 <= nu <= 1/2.                                                       *)
(*                                                                         *)
(* In both cases u' lies between u1 and u2 (Harten's incremental form with  *)
(* a coefficient in [0, 1]), hence inside the range of the previous         *)
(* solution; rk2_heun and rk3ssp are convex combinations of such steps      *)
(* (RK.tla: InvSSP), so the bound carries over.  Everything is homogeneous: *)
(* rational data, slopes and Courant numbers nu = p/q reduce to integers.   *)
(* The bound is multiplied by 2q > 0.                                       *)
(*                                                                         *)
(* Teeth: the same claim at nu <= 1 (InvBadCfl) and with a limiter allowed  *)
(* up to 3 min(|a|,|b|) (InvBadRegion) must be refuted.                     *)
(***************************************************************************)
EXTENDS Integers
VARIABLES
  \* @type: Int;
  u0,
  \* @type: Int;
  u1,
  \* @type: Int;
  u2,
  \* @type: Int;
  u3,
  \* @type: Int;
  fA,
  \* @type: Int;
  fB,
  \* @type: Int;
  p,
  \* @type: Int;
  q

Abs(x) == IF x < 0 THEN -x ELSE x
Min(x, y) == IF x <= y THEN x ELSE y
Max(x, y) == IF x >= y THEN x ELSE y
Sgn(x) == IF x > 0 THEN 1 ELSE IF x < 0 THEN -1 ELSE 0
Same(x, y) == (x > 0 /\ y > 0) \/ (x < 0 /\ y < 0)

(* the region of C12 with a free factor k on the smaller slope (k = 2 is the region) *)
RegionK(phi, x, y, k) == /\ (~Same(x, y) => phi = 0)
                         /\ (Same(x, y) => (phi = 0 \/ Sgn(phi) = Sgn(x)))
                         /\ Abs(phi) <= k * Min(Abs(x), Abs(y))
                         /\ Abs(phi) <= Max(Abs(x), Abs(y))
Region(phi, x, y) == RegionK(phi, x, y, 2)

Init == /\ u0 \in Int /\ u1 \in Int /\ u2 \in Int /\ u3 \in Int
        /\ fA \in Int /\ fB \in Int /\ p \in Int /\ q \in Int
Next == UNCHANGED <<u0, u1, u2, u3, fA, fB, p, q>>

(* 2 q u' for the MUSCL step, slopes as muscl.interp_face forms them on a uniform mesh (face gradients, half a cell) *)
TwoQNew == 2 * q * u2 - p * (2 * (u2 - u1) + fA - fB)
Between(x) == 2 * q * Min(u1, u2) <= x /\ x <= 2 * q * Max(u1, u2)

InvFirstOrder == (q > 0 /\ 0 <= p /\ p <= q) =>
                   LET new == q * u2 - p * (u2 - u1) IN q * Min(u1, u2) <= new /\ new <= q * Max(u1, u2)
InvMuscl == (q > 0 /\ 0 <= p /\ 2 * p <= q /\ Region(fA, u3 - u2, u2 - u1) /\ Region(fB, u2 - u1, u1 - u0)) => Between(TwoQNew)
(* Harten's incremental coefficient C in [0, 1]: u' = u2 - C (u2 - u1); stated without division *)
InvHarten == (q > 0 /\ 0 <= p /\ 2 * p <= q /\ Region(fA, u3 - u2, u2 - u1) /\ Region(fB, u2 - u1, u1 - u0) /\ u2 # u1) =>
               LET num == p * (2 * (u2 - u1) + fA - fB)          \* C = num / (2 q (u2 - u1))
               IN  /\ num * Sgn(u2 - u1) >= 0
                   /\ num * Sgn(u2 - u1) <= 2 * q * Abs(u2 - u1)

InvBadCfl == (q > 0 /\ 0 <= p /\ p <= q /\ Region(fA, u3 - u2, u2 - u1) /\ Region(fB, u2 - u1, u1 - u0)) => Between(TwoQNew)
InvBadRegion == (q > 0 /\ 0 <= p /\ 2 * p <= q /\ RegionK(fA, u3 - u2, u2 - u1, 3) /\ RegionK(fB, u2 - u1, u1 - u0, 3)) => Between(TwoQNew)
=============================================================================
