----------------------------- MODULE Apa_Speeds -----------------------------
(***************************************************************************)
(* C18 (i), the speed the time step is built on, for EVERY state and EVERY  *)
(* gamma (symbolic, Apalache + Z3), where MC_Fluxes checks `Eigen` on a     *)
(* grid: u - c, u, u + c are eigenvalues of the Jacobian of the physical    *)
(* flux (Euler in conservative variables, ideal gas; shallow water), with   *)
(* the eigenvectors (1, u -+ c, H -+ u c), (1, u, u^2/2), so the spectral   *)
(* radius is |u| + c:  dt = cfl dx / (|u| + c) is the CFL step.             *)
(* gamma = gn/gd > 1, gm = gn - gd;  H = c^2/(gamma-1) + u^2/2, written     *)
(* H2 = 2 gm H = 2 gd c^2 + gm u^2.  Rows are multiplied by 2 gd (momentum) *)
(* and 2 gd gm (energy).  Teeth: u + 2c is not an eigenvalue.               *)
(***************************************************************************)
EXTENDS Integers
VARIABLES
  \* @type: Int;
  u,
  \* @type: Int;
  c,
  \* @type: Int;
  gn,
  \* @type: Int;
  gd

Abs(x) == IF x < 0 THEN -x ELSE x
Max(x, y) == IF x >= y THEN x ELSE y
Init == u \in Int /\ c \in Int /\ gn \in Int /\ gd \in Int
Next == UNCHANGED <<u, c, gn, gd>>

Adm == c > 0 /\ gd > 0 /\ gn > gd
gm == gn - gd
H2 == 2 * gd * c * c + gm * u * u
(* A r = lam r for r = (1, x, y), with Y2 = 2 gm y; row 1 is x = lam *)
Row2(x, Y2, lam) == (gn - 3 * gd) * u * u + 2 * (3 * gd - gn) * u * x + Y2 = 2 * gd * lam * x
Row3(x, Y2, lam) == u * (gm * gm * u * u - gd * H2) + (gd * H2 - 2 * gm * gm * u * u) * x + gn * u * Y2 = gd * lam * Y2
EigenPair(x, Y2, lam) == x = lam /\ Row2(x, Y2, lam) /\ Row3(x, Y2, lam)

InvEulerEigen == Adm => /\ EigenPair(u - c, H2 - 2 * gm * u * c, u - c)
                        /\ EigenPair(u, gm * u * u, u)
                        /\ EigenPair(u + c, H2 + 2 * gm * u * c, u + c)
InvSpectralRadius == c > 0 => Max(Abs(u - c), Max(Abs(u), Abs(u + c))) = Abs(u) + c
(* shallow water: A = [[0, 1], [c^2 - u^2, 2u]], r = (1, u -+ c) *)
InvShallowWaterEigen == c > 0 => /\ (c * c - u * u) + 2 * u * (u - c) = (u - c) * (u - c)
                                 /\ (c * c - u * u) + 2 * u * (u + c) = (u + c) * (u + c)
InvBadEigen == Adm => EigenPair(u + 2 * c, H2 + 4 * gm * u * c, u + 2 * c)
=============================================================================
