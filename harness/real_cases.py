"""Cases on the REAL physical models / fluxes / integrators (round-off regime): tokens for Judge_FVM1D / Judge_FVM2D."""
import math, os, random, sys
from fractions import Fraction
import numpy as np
from . import core, fd
from . import fvm_obs as O
from . import fvm1d_cases as K1

F = Fraction
FLUXES = {"convection": [None], "burgers": [None], "shallowwater": ["centered", "rusanov", "hll"],
          "euler1d": ["centered", "centeredmassflow", "hlle", "hllc"], "nozzle": ["centered", "centeredmassflow", "hlle", "hllc"]}
EXPLICIT = ["explicit", "rk2", "rk2_heun", "rk3_heun", "rk3ssp", "rk4", "lsrk25bb", "lsrk26bb", "lsrk4"]
IMPLICIT = ["implicit", "cranknicolson", "gear"]


def make_model(kind, rnd, **kw):
    if kind == "convection":
        return fd.conv.model(kw.get("a", rnd.choice([1.0, -1.0, 2.5, -0.3])))
    if kind == "burgers":
        return fd.burgers.model()
    if kind == "shallowwater":
        return fd.sw.shallowwater1d(g=kw.get("g", rnd.choice([9.81, 1.0, 10.0])), source=kw.get("source"))
    if kind == "euler1d":
        return fd.euler.euler1d(gamma=kw.get("gamma", rnd.choice([1.4, 5.0 / 3.0, 1.2])), source=kw.get("source"))
    if kind == "nozzle":
        return fd.euler.nozzle(kw.get("section", lambda x: 1.0 + 0.0 * x), gamma=kw.get("gamma", rnd.choice([1.4, 5.0 / 3.0])))
    raise KeyError(kind)


def rough_ok(recon, mesh=None):
    """rough (random / strong jump) data keep the face states admissible only for first order, and for limited schemes on
    (nearly) uniform meshes: on a strongly non-uniform mesh a limited face-based slope times the half width of a large cell
    overshoots its neighbours (the limiter bounds the slope, not the face value), e.g. negative depth -> NaN"""
    if recon == "extrapol1":
        return True
    if not recon.startswith("muscl"):
        return False
    if mesh is None:
        return True
    v = np.asarray(mesh.vol(), dtype=float)
    return bool(np.max(v) <= 1.5 * np.min(v))


def random_prim(kind, rnd, n, smooth=False, strength=1.0, mild=False, nonrest=False):
    """admissible primitive data (list of arrays); mild: small-amplitude smooth data for unlimited high-order schemes"""
    if mild:
        x = np.linspace(0, 1, n, endpoint=False)
        ph = rnd.uniform(0, 6.28)
        w = lambda c, a: c + a * np.sin(2 * np.pi * x + ph + rnd.uniform(0, 3))     # noqa: E731
        if kind == "convection":
            return [w(0.0, 1.0)]
        if kind == "burgers":
            return [rnd.choice([1.0, -1.0]) * w(1.0, 0.3)]
        centres = [0.5, -2.0] if nonrest else [0.0, 0.5, -2.0]
        if kind == "shallowwater":
            return [w(1.0, 0.1), w(rnd.choice(centres), 0.1)]
        return [w(1.0, 0.1), w(rnd.choice(centres), 0.1), w(1.0, 0.1)]
    x = np.linspace(0, 1, n, endpoint=False)
    ph = rnd.uniform(0, 6.28)

    def prof(lo, hi):
        if smooth:
            return lo + (hi - lo) * (0.5 + 0.5 * np.sin(2 * np.pi * x + ph + rnd.uniform(0, 3)))
        return np.array([rnd.uniform(lo, hi) for _ in range(n)])
    if kind == "convection":
        return [prof(-2, 2)]
    if kind == "burgers":
        s = rnd.choice([1.0, -1.0])
        return [s * prof(0.2, 2.0)]
    if kind == "shallowwater":
        h = prof(0.5, 0.5 + 2.0 * strength)
        return [h, prof(-1.0, 1.0)]
    rho = prof(0.5, 0.5 + 2.0 * strength)
    p = prof(0.5, 0.5 + 2.0 * strength)
    u = prof(-1.0, 1.0) * rnd.choice([0.3, 1.0, 2.5])
    return [rho, u, p]


def field_from_prim(model, m, prim):
    f = fd.field.fdata(model, m, [np.array(p, dtype=float) for p in prim])
    return fd.field.fdata(model, m, model.prim2cons(f.data))


def max_ulps(a, b, scale, bits=52):
    a, b = np.asarray(a, dtype=float).ravel(), np.asarray(b, dtype=float).ravel()
    if a.shape != b.shape:
        return core.ULP_CAP
    na, nb = ~np.isfinite(a), ~np.isfinite(b)
    if np.any(na != nb):
        return core.ULP_CAP            # one run blew up where the other did not
    a, b = a[~na], b[~nb]              # both runs blew up at the same places: the relation holds (such runs are unstable
    #                                    scheme combinations, e.g. the centered flux; positivity / finiteness is C10's business)
    d = float(np.max(np.abs(a - b))) if a.size else 0.0
    if not np.isfinite(scale):         # the caller's scale was taken over entries that are non-finite in both runs
        scale = max(float(np.max(np.abs(a))) if a.size else 0.0, float(np.max(np.abs(b))) if b.size else 0.0, 1e-300)
    return core.ulps(d, 0.0, scale, bits) if d > 0 else 0


def blew_up(result, initial):
    """a run that is non-finite or grew by more than 1e3 is an unstable scheme combination (e.g. the centered flux with an
    explicit integrator): round-off differences between a problem and its twin are amplified at the same rate, so the
    metamorphic relations are only judged on runs that did not blow up (finiteness itself is C09 / C10 / C03 business)"""
    for a, b in zip(result.data, initial.data):
        a = np.asarray(a, dtype=float)
        if not np.all(np.isfinite(a)):
            return True
    sa = max(float(np.max(np.abs(np.asarray(a, dtype=float)))) for a in result.data)
    sb = max(float(np.max(np.abs(np.asarray(b, dtype=float)))) for b in initial.data)
    return sa > 1e3 * max(sb, 1e-300)


def solver_tok(u40):
    """a defect measured in units of 2^-40 (solver clause, tolerance 2^24) expressed on the round-off scale the judges
    compare with TolRoundoff = 2^22: divide by 4, keeping non-finite (capped) values capped"""
    return u40 if u40 >= core.ULP_CAP else u40 // 4


def tok(**kw):
    r = dict(kind="tok", cons=0, perflux=0, wall=0, unif=0, const=0, linear=0, shift=0, mirror=0, solve=0, implicit=0,
             scaling=0, unifsolve=0, scalero=0)
    r.update(kw)
    return r


# ----------------------------------------------------------------------------- C01 operator on real fluxes (1D)
def cons_operator_cases(rnd, tier):
    recs = []
    ncase = 120 if tier == "quick" else 1500
    kinds = list(FLUXES)
    for c in range(ncase):
        kind = kinds[c % len(kinds)]
        flux = rnd.choice(FLUXES[kind])
        n = rnd.choice([2, 3, 5, 9, 20, 50])
        m = K1.random_mesh(rnd, n)
        n = m.ncell
        recon = rnd.choice(fd.TOKEN_RECONS)
        model = O.Recording(make_model(kind, rnd))
        bcs = [("per", "per")]
        if kind in ("euler1d", "nozzle", "shallowwater"):
            bcs += [("sym", "sym")]
        if kind in ("euler1d", "nozzle"):
            bcs += [("outsup", "outsup"), ("sym", "outsup")]
        if kind == "shallowwater":
            bcs += [("inf", "inf")]
        bl, br = rnd.choice(bcs)
        strength = rnd.choice([1.0, 30.0, 3000.0]) if kind not in ("convection", "burgers") else 1.0
        try:
            disc = fd.modeldisc.fvm(model, m, fd.recon(recon), numflux=flux, bcL={"type": bl}, bcR={"type": br})
            f = field_from_prim(model, m, random_prim(kind, rnd, n, strength=strength, mild=not rough_ok(recon, m)))
            R = [np.array(r, dtype=float) for r in disc.rhs(f)]
            pL, pR, fl = model.calls[-1]
            src = None
            if kind == "nozzle":
                src = [np.asarray(s(m.centers(), f.data), dtype=float) for s in model.source]
        except Exception as ex:
            recs.append(O.raised_record(ex, model=kind, flux=str(flux), recon=recon, n=n))
            continue
        worst = 0
        for q in range(model.neq):
            worst = max(worst, K1.cons_token(m, R[q], fl[q], src[q] if src is not None else None))
        wall = 0
        if bl == "sym" or br == "sym":
            even = [0] if kind == "shallowwater" else [0, 2]
            for q in even:
                sc = float(np.max(np.abs(fl[q]))) + float(np.max(np.abs(fl[1])))
                if bl == "sym":
                    wall = max(wall, core.ulps(float(fl[q][0]), 0.0, sc if sc > 0 else 1.0))
                if br == "sym":
                    wall = max(wall, core.ulps(float(fl[q][-1]), 0.0, sc if sc > 0 else 1.0))
        per = 0
        if bl == "per":
            per = 0 if all(float(fl[q][0]) == float(fl[q][-1]) for q in range(model.neq)) else core.ULP_CAP
        recs.append(tok(cons=worst, wall=wall, perflux=per, model=kind, flux=str(flux), recon=recon, n=n, bcl=bl, bcr=br,
                        strength=strength))
    return recs


# ----------------------------------------------------------------------------- solves: conservation (C01c)
def integrate(cls, m, disc, f, cfl, nit, dtlocal=False, entry="solve"):
    solver = getattr(fd.tnum, cls)(m, disc)
    if entry == "legacy":
        # the older public entry point: about nit steps up to one save time (one global step for every cell there too)
        with np.errstate(all="ignore"):
            T = float(f.time) + nit * float(np.min(disc.calc_timestep(f, cfl)))
            return solver.solve_legacy(f, cfl, [T])[-1]
    kw = {"directives": {"dtlocal": True}} if dtlocal else {}
    with np.errstate(all="ignore"):
        # history of the integrator object: it has already served one short solve with the OTHER directive and another CFL number
        # (a solve depends on its arguments, not on what the object did before -- C08; every solve-level clause is judged that way)
        try:
            solver.solve(f.copy(), cfl * 0.5, stop={"maxit": 1}, **({} if dtlocal else {"directives": {"dtlocal": True}}))
        except Exception:
            pass
        res = solver.solve(f, cfl, stop={"maxit": nit}, **kw)
    return res[-1]


def integral(m, q):
    vol = np.asarray(m.vol(), dtype=float)
    return sum((F(float(v)) * F(float(x)) for v, x in zip(vol, q)), F(0))


def cons_solve_cases(rnd, tier):
    """periodic (every variable) and slip-wall (mass, energy / height) solves with one global time step"""
    recs = []
    ncase = 60 if tier == "quick" else 800
    kinds = list(FLUXES)
    for c in range(ncase):
        kind = kinds[c % len(kinds)]
        flux = rnd.choice(FLUXES[kind])
        cls = rnd.choice(EXPLICIT + IMPLICIT) if c % 3 else rnd.choice(IMPLICIT)
        implicit = cls in IMPLICIT
        n = rnd.choice([3, 5, 8, 16]) if implicit else rnd.choice([3, 5, 10, 30])
        m = K1.random_mesh(rnd, n)
        n = m.ncell
        recon = rnd.choice(fd.TOKEN_RECONS if not implicit else fd.LINEAR_RECONS + ["muscl_vanalbada"])
        model = make_model(kind, rnd)
        wallbc = kind in ("euler1d", "nozzle", "shallowwater") and c % 2 == 1
        bl = br = "sym" if wallbc else "per"
        linear = kind == "convection"
        cfl = rnd.choice([0.2, 0.5]) if not implicit else (rnd.choice([0.01, 0.5, 2.0, 20.0, 100.0]) if linear
                                                             else rnd.choice([0.01, 0.3, 1.0]))
        if cls in ("explicit",):
            cfl = 0.2
        nit = rnd.choice([1, 3, 10]) if tier == "quick" else rnd.choice([1, 5, 20])
        try:
            disc = fd.modeldisc.fvm(model, m, fd.recon(recon), numflux=flux, bcL={"type": bl}, bcR={"type": br})
            prim = random_prim(kind, rnd, n, mild=True)
            if wallbc:
                prim[1] = prim[1] - np.mean(prim[1])      # no mean flow into the walls
            f0 = field_from_prim(model, m, prim)
            f1 = integrate(cls, m, disc, f0, cfl, nit, entry="legacy" if c % 4 == 3 else "solve")
        except Exception as ex:
            recs.append(O.raised_record(ex, model=kind, flux=str(flux), recon=recon, n=n, integrator=cls))
            continue
        eqs = range(model.neq) if not wallbc else ([0] if kind == "shallowwater" else [0, 2])
        worst = 0
        finite = all(bool(np.all(np.isfinite(d))) for d in f1.data)
        if not finite and nit > 1:
            # a run that ends non-finite is an unstable scheme combination (measured on the unchanged tree: the non-dissipative
            # centered flux with Crank-Nicolson at CFL 1 leaves the admissible states within 20 iterations for 4% of the random
            # data); conservation is a statement about finite integrals: it is judged on the FIRST step of such a run instead
            # (finiteness itself is claimed by C09 / C10 only)
            try:
                f1 = integrate(cls, m, disc, f0, cfl, 1, entry="legacy" if c % 4 == 3 else "solve")
                nit = 1
                finite = all(bool(np.all(np.isfinite(d))) for d in f1.data)
            except Exception as ex:
                recs.append(O.raised_record(ex, model=kind, flux=str(flux), recon=recon, n=n, integrator=cls))
                continue
        if not finite:
            recs.append(tok(solve=0, implicit=1 if implicit else 0, nit=nit, model=kind, flux=str(flux), recon=recon, n=n,
                            integrator=cls, cfl=cfl, bcl=bl, bcr=br, unstable=1))
            continue
        for q in eqs:
            i0, i1 = integral(m, f0.data[q]), integral(m, f1.data[q])
            scale = sum((F(float(v)) * abs(F(float(x))) for v, x in zip(m.vol(), f0.data[q])), F(0))
            # (an unstable combination -- gear at CFL 100 with a limiter behind the cached "linear" Jacobian -- grows by 1e5 and still
            # conserves: round-off is that of the magnitudes the run went through, so the final magnitude counts too)
            scale = max(scale, sum((F(float(v)) * abs(F(float(x))) for v, x in zip(m.vol(), f1.data[q])), F(0)))
            if kind not in ("convection", "burgers"):
                scale = max(scale, sum((F(float(v)) * abs(F(float(x))) for v, x in zip(m.vol(), f0.data[-1])), F(0)))
            if implicit:
                # the finite-difference Jacobian's columns sum to zero only to round-off / eps: the defect grows with dt;
                # measured in solver units (2^-40), expressed on the scale of TolSolver = 2^30: x 2^6
                scale = scale * F(max(1.0, cfl))
                u40 = core.ulps(i1, i0, scale if scale > 0 else 1, core.SOLVER_BITS)
                worst = max(worst, u40 if u40 >= core.ULP_CAP else min(core.ULP_CAP - 1, u40 * 64))
                continue
            worst = max(worst, core.ulps(i1, i0, scale if scale > 0 else 1))
        recs.append(tok(solve=worst, implicit=1 if implicit else 0, nit=nit, model=kind, flux=str(flux), recon=recon, n=n,
                        integrator=cls, cfl=cfl, bcl=bl, bcr=br))
    return recs


# ----------------------------------------------------------------------------- C14: solves of rolled data (1D, 2D)
def shift_solve_cases_1d(rnd, tier):
    recs = []
    ncase = 40 if tier == "quick" else 500
    kinds = list(FLUXES)
    for c in range(ncase):
        kind = kinds[c % len(kinds)]
        flux = rnd.choice(FLUXES[kind])
        cls = rnd.choice(EXPLICIT + IMPLICIT)
        implicit = cls in IMPLICIT
        n = rnd.choice([2, 3, 4, 7, 16])
        big = c in (1, 2, 3)
        if big:
            # the quantifier has no upper bound on the mesh size: a few LARGE periodic problems (600 unknowns and more), with the
            # implicit integrators (whose linear algebra is the part that changes with size) and a low-storage explicit one
            cls = ["implicit", "cranknicolson", "lsrk25bb"][c - 1]
            implicit = cls in IMPLICIT
            kind = ["convection", "convection", "euler1d"][c - 1]
            flux = rnd.choice(FLUXES[kind])
            n = [600, 530, 700][c - 1]
        m = fd.uniform(n, length=rnd.choice([1.0, 2.5]))
        # implicit: differentiable reconstructions only (a finite-difference Jacobian taken across a limiter kink turns
        # 1-ulp differences between the two runs into O(1e-7) ones -- ties are exact on symmetric data)
        recon = rnd.choice(fd.TOKEN_RECONS if not implicit else fd.LINEAR_RECONS + ["muscl_vanalbada"])
        model = make_model(kind, rnd)
        k = rnd.randrange(1, n)
        cfl = 0.3 if not implicit else (rnd.choice([0.5, 5.0]) if kind == "convection" else 0.5)
        try:
            disc = fd.modeldisc.fvm(model, m, fd.recon(recon), numflux=flux)
            prim = random_prim(kind, rnd, n, mild=(not rough_ok(recon, m)) or implicit, nonrest=implicit)
            f0 = field_from_prim(model, m, prim)
            f0k = field_from_prim(model, m, [np.roll(p, k) for p in prim])
            a = integrate(cls, m, disc, f0, cfl, 4 if not big else 2)
            b = integrate(cls, m, disc, f0k, cfl, 4 if not big else 2)
            Ra = [np.array(r) for r in disc.rhs(f0)]
            Rb = [np.array(r) for r in disc.rhs(f0k)]
        except Exception as ex:
            recs.append(O.raised_record(ex, model=kind, flux=str(flux), recon=recon, n=n, integrator=cls))
            continue
        if blew_up(a, f0) or blew_up(b, f0k):
            a, b = f0, f0k            # unstable combination: only the operator is compared
        worst = 0
        bitequal = True
        for q in range(model.neq):
            sc = max(float(np.max(np.abs(a.data[q]))), float(np.max(np.abs(f0.data[q])))) + 1e-300
            u = max_ulps(np.roll(a.data[q], k), b.data[q], sc)
            scr = float(np.max(np.abs(Ra[q]))) + 1e-300
            ur = max_ulps(np.roll(Ra[q], k), Rb[q], scr)
            bitequal = bitequal and u == 0 and ur == 0
            if implicit:
                u = solver_tok(max_ulps(np.roll(a.data[q], k), b.data[q], sc, core.SOLVER_BITS))
            worst = max(worst, u, ur)
        recs.append(tok(shift=worst, model=kind, flux=str(flux), recon=recon, n=n, integrator=cls, biteq=1 if bitequal else 0))
    return recs


def euler2d_problem(rnd, nx, ny, flux, recon, bclist, gamma=1.4, prim=None, lx=None, ly=None):
    model = fd.euler.euler2d(gamma=gamma)
    lx = lx if lx is not None else rnd.choice([1.0, 2.0])
    ly = ly if ly is not None else rnd.choice([1.0, 0.5])
    m = fd.mesh2d.mesh2d(nx, ny, lx, ly)
    num = fd.recon2(recon)
    disc = fd.modeldisc.fvm2dcart(model, m, num, bclist=bclist, numflux=flux)
    return model, m, disc


def prim2d(rnd, nx, ny, uniform_v=False):
    n = nx * ny
    rho = np.array([rnd.uniform(0.5, 2.0) for _ in range(n)])
    p = np.array([rnd.uniform(0.5, 2.0) for _ in range(n)])
    u = np.array([[rnd.uniform(-1, 1) for _ in range(n)], [rnd.uniform(-1, 1) for _ in range(n)]])
    return [rho, u, p]


def cons2d(model, m, prim):
    f = fd.field.fdata(model, m, [np.array(p, dtype=float) for p in prim])
    return fd.field.fdata(model, m, model.prim2cons(f.data))


def roll2(a, nx, ny, kx, ky):
    a = np.asarray(a)
    if a.ndim == 1:
        return np.roll(np.roll(a.reshape(ny, nx), kx, axis=1), ky, axis=0).reshape(-1)
    return np.vstack([roll2(a[0], nx, ny, kx, ky), roll2(a[1], nx, ny, kx, ky)])


PER2 = {t: {"type": "per"} for t in ("left", "right", "bottom", "top")}


def tok2(**kw):
    r = dict(kind="tok2", cons=0, unif=0, shift=0, transpose=0, mirx=0, miry=0, rows=0, transverse=0, wall=0, solve=0, unifsolve=0)
    r.update(kw)
    return r


def shift_solve_cases_2d(rnd, tier):
    recs = []
    ncase = 16 if tier == "quick" else 150
    for c in range(ncase):
        nx, ny = rnd.choice([(2, 2), (3, 2), (2, 3), (4, 3), (5, 5), (3, 7)])
        flux = rnd.choice(["centered", "hlle"])
        recon = rnd.choice([("e1", None), ("k", -1.0), ("k", 1.0 / 3.0), ("k", 0.0)])
        # (the implicit classes do not support the 2D vector-valued momentum: they raise at once; not part of any claim)
        cls = rnd.choice(["explicit", "rk2", "rk2_heun", "rk3ssp", "rk4", "lsrk25bb", "lsrk4"])
        kx, ky = rnd.randrange(nx), rnd.randrange(ny)
        try:
            model, m, disc = euler2d_problem(rnd, nx, ny, flux, recon, PER2, gamma=rnd.choice([1.4, 5.0 / 3.0]))
            prim = prim2d(rnd, nx, ny)
            if recon[0] != "e1":      # unlimited high order: keep the extrapolated face states admissible
                prim = [1.0 + 0.1 * (prim[0] - 1.0), 0.3 * prim[1], 1.0 + 0.1 * (prim[2] - 1.0)]
            f0 = cons2d(model, m, prim)
            f0k = cons2d(model, m, [roll2(p, nx, ny, kx, ky) for p in prim])
            Ra = [np.array(r) for r in disc.rhs(f0)]
            Rb = [np.array(r) for r in disc.rhs(f0k)]
            a = integrate(cls, m, disc, f0, 0.3, 3)
            b = integrate(cls, m, disc, f0k, 0.3, 3)
        except Exception as ex:
            recs.append(O.raised_record(ex, nx=nx, ny=ny, flux=flux, recon=str(recon), integrator=cls))
            continue
        if blew_up(a, f0) or blew_up(b, f0k):
            a, b = f0, f0k
        worst = 0
        for q in range(3):
            sc = max(float(np.max(np.abs(a.data[q]))), float(np.max(np.abs(f0.data[q])))) + 1e-300
            u = max_ulps(roll2(a.data[q], nx, ny, kx, ky), b.data[q], sc)
            scr = float(np.max(np.abs(Ra[q]))) + 1e-300
            worst = max(worst, u, max_ulps(roll2(Ra[q], nx, ny, kx, ky), Rb[q], scr))
        recs.append(tok2(shift=worst, nx=nx, ny=ny, flux=flux, recon=str(recon), integrator=cls, kx=kx, ky=ky))
    return recs


# ----------------------------------------------------------------------------- C01 in 2D: real Euler fluxes
def cons2d_cases(rnd, tier):
    """euler2d: operator conservation on periodic / wall grids (sum vol*R against boundary fluxes seen at the seam) and
    conservation of solves with explicit integrators"""
    recs = []
    ncase = 30 if tier == "quick" else 400
    for c in range(ncase):
        nx, ny = rnd.choice([(1, 1), (2, 2), (3, 2), (2, 5), (6, 4), (9, 7)])
        flux = rnd.choice(["centered", "hlle"])
        recon = rnd.choice([("e1", None), ("k", -1.0), ("k", 1.0 / 3.0), ("k", 1.0)])
        walls = c % 3 == 1
        bclist = {t: {"type": "sym" if walls else "per"} for t in ("left", "right", "bottom", "top")}
        if c % 3 == 2:
            bclist = {"left": {"type": "per"}, "right": {"type": "per"}, "bottom": {"type": "sym"}, "top": {"type": "sym"}}
        try:
            model0, m, disc0 = euler2d_problem(rnd, nx, ny, flux, recon, bclist, gamma=rnd.choice([1.4, 5.0 / 3.0]))
            model = O.Recording(model0)
            num = fd.recon2(recon)
            disc = fd.modeldisc.fvm2dcart(model, m, num, bclist=bclist, numflux=flux)
            prim = prim2d(rnd, nx, ny)
            if recon[0] != "e1":      # unlimited high order: keep the face states admissible
                prim = [1.0 + 0.1 * (prim[0] - 1.0), 0.3 * prim[1], 1.0 + 0.1 * (prim[2] - 1.0)]
            f0 = cons2d(model0, m, prim)
            R = disc.rhs(f0)
            pL, pR, fl = model.calls[-1]
            dx, dy = F(float(m.dx())), F(float(m.dy()))
            nxf = (nx + 1) * ny
            worst = 0
            wall = 0
            comps = [(np.asarray(R[0]), np.asarray(fl[0])), (np.asarray(R[1][0]), np.asarray(fl[1][0])),
                     (np.asarray(R[1][1]), np.asarray(fl[1][1])), (np.asarray(R[2]), np.asarray(fl[2]))]
            for qi, (Rq, Fq) in enumerate(comps):
                tot = dx * dy * K1.fsum(Rq)
                bx = dy * sum((F(float(Fq[j * (nx + 1)])) - F(float(Fq[j * (nx + 1) + nx])) for j in range(ny)), F(0))
                by = dx * sum((F(float(Fq[nxf + i])) - F(float(Fq[nxf + ny * nx + i])) for i in range(nx)), F(0))
                scale = dy * sum((abs(F(float(x))) for x in Fq[:nxf]), F(0)) + dx * sum((abs(F(float(x))) for x in Fq[nxf:]), F(0))
                worst = max(worst, core.ulps(tot, bx + by, scale if scale > 0 else 1))
                if qi in (0, 3):          # mass and energy do not cross slip walls
                    scw = float(np.max(np.abs(Fq))) + float(np.max(np.abs(comps[1][1]))) + float(np.max(np.abs(comps[2][1]))) + 1e-300
                    for tag in ("left", "right", "bottom", "top"):
                        if bclist[tag]["type"] == "sym":
                            for fidx in m.index_of_bc(tag):
                                wall = max(wall, core.ulps(float(Fq[fidx]), 0.0, scw))
            rec = tok2(cons=worst, wall=wall, nx=nx, ny=ny, flux=flux, recon=str(recon), bc="sym" if walls else "per")
            # solve: periodic -> everything conserved; walls -> mass and energy
            cls = rnd.choice(["explicit", "rk2_heun", "rk3ssp", "rk4", "lsrk26bb"])
            f1 = integrate(cls, m, disc0, f0, 0.3, rnd.choice([1, 4]))
            allper = all(b["type"] == "per" for b in bclist.values())
            vol = float(m.dx() * m.dy())
            solve = 0
            for q in ([0, 1, 2] if allper else [0, 2]):
                a0, a1 = np.asarray(f0.data[q], dtype=float).reshape(-1), np.asarray(f1.data[q], dtype=float).reshape(-1)
                if not np.all(np.isfinite(a1)):
                    solve = core.ULP_CAP
                    break
                if q == 1:
                    for comp in (0, 1):
                        i0, i1 = K1.fsum(f0.data[1][comp]), K1.fsum(f1.data[1][comp])
                        sc = sum((abs(F(float(x))) for x in f0.data[2]), F(0))
                        solve = max(solve, core.ulps(i1, i0, sc))
                else:
                    i0, i1 = K1.fsum(a0), K1.fsum(a1)
                    sc = sum((abs(F(float(x))) for x in f0.data[2]), F(0))
                    solve = max(solve, core.ulps(i1, i0, sc))
            rec["solve"] = solve
            rec["integrator"] = cls
            recs.append(rec)
        except Exception as ex:
            recs.append(O.raised_record(ex, nx=nx, ny=ny, flux=flux, recon=str(recon)))
    return recs


# ----------------------------------------------------------------------------- C15: 2D Euler against grid symmetries and 1D
def _bc2_random(rnd):
    """boundary tag assignment with matching physical meaning; returns dict tag -> bc dict"""
    kind = rnd.choice(["per", "sym", "duct_sub_x", "duct_sup_x", "duct_sub_y", "mixed"])
    per, sym = {"type": "per"}, {"type": "sym"}
    insub = {"type": "insub", "ptot": 1.4, "rttot": 1.0}
    outsub = {"type": "outsub", "p": 1.0}
    insup = {"type": "insup", "ptot": 2.8, "rttot": 1.0, "p": 1.0}
    if rnd.random() < 0.5:
        insup = dict(insup, angle=rnd.choice([20.0, -35.0]))
    outsup = {"type": "outsup"}
    if kind == "per":
        return dict(left=per, right=per, bottom=per, top=per)
    if kind == "sym":
        return dict(left=sym, right=sym, bottom=sym, top=sym)
    if kind == "duct_sub_x":
        return dict(left=insub, right=outsub, bottom=rnd.choice([sym, per]), top=None)
    if kind == "duct_sup_x":
        return dict(left=insup, right=outsup, bottom=rnd.choice([sym, per]), top=None)
    if kind == "duct_sub_y":
        return dict(bottom=insub, top=outsub, left=rnd.choice([sym, per]), right=None)
    return dict(left=outsub, right=insub, bottom=outsup, top=insup)


def _fix_pairs(bc):
    for a, b in (("left", "right"), ("bottom", "top")):
        if bc[b] is None:
            bc[b] = dict(bc[a])
        if bc[a] is None:
            bc[a] = dict(bc[b])
    return bc


def _angle(b, f):
    if "angle" in b:
        b = dict(b)
        b["angle"] = f(b["angle"])
    return b


def rhs2d(model_gamma, nx, ny, lx, ly, flux, recon, bclist, prim):
    model = fd.euler.euler2d(gamma=model_gamma)
    m = fd.mesh2d.mesh2d(nx, ny, lx, ly)
    num = fd.recon2(recon)
    disc = fd.modeldisc.fvm2dcart(model, m, num, bclist=bclist, numflux=flux)
    f = cons2d(model, m, prim)
    with np.errstate(all="ignore"):
        R = disc.rhs(f)
    return [np.array(R[0]), np.array(R[1][0]), np.array(R[1][1]), np.array(R[2])], model, m, disc, f


def grid(a, nx, ny):
    return np.asarray(a).reshape(ny, nx)


def flux_scale(gam, rho, u, p, h):
    """magnitude of a flux difference divided by the cell size: the natural scale of a residual (a residual that vanishes
    by symmetry must not be judged relative to its own round-off)"""
    vm = float(np.max(np.abs(u))) + float(np.sqrt(gam * np.max(p) / np.min(rho)))
    return (float(np.max(rho)) * vm * vm + float(np.max(p))) * vm * (1.0 + 1.0 / (gam - 1.0)) / h


def sym2d_cases(rnd, tier):
    recs = []
    ncase = 40 if tier == "quick" else 600
    for c in range(ncase):
        nx, ny = rnd.choice([(1, 2), (2, 1), (2, 3), (3, 2), (4, 3), (5, 2), (3, 6), (8, 5)])
        lx, ly = rnd.choice([(1.0, 1.0), (2.0, 0.5), (1.5, 0.7)])
        flux = rnd.choice(["centered", "hlle"])
        recon = rnd.choice([("e1", None), ("k", -1.0), ("k", 1.0 / 3.0), ("k", 0.0)])
        gam = rnd.choice([1.4, 5.0 / 3.0])
        bc = _fix_pairs(_bc2_random(rnd))
        n = nx * ny
        rho = np.array([rnd.uniform(0.9, 1.1) for _ in range(n)])
        p = np.array([rnd.uniform(0.9, 1.1) for _ in range(n)])
        u = np.array([[rnd.uniform(0.2, 0.6) for _ in range(n)], [rnd.uniform(-0.2, 0.2) for _ in range(n)]])
        if any(b["type"] in ("insup", "outsup") for b in bc.values()):
            u = u * np.array([[3.0], [1.0]]) + np.array([[0.5], [0.0]])
        try:
            R, model, m, disc, f = rhs2d(gam, nx, ny, lx, ly, flux, recon, bc, [rho, u, p])
            sc = [max(float(np.max(np.abs(r))) for r in R) + flux_scale(gam, rho, u, p, min(lx / nx, ly / ny))] * 4
            # transpose
            T = lambda a: grid(a, nx, ny).T.reshape(-1)      # noqa: E731
            bcT = dict(left=_angle(bc["bottom"], lambda a: 90.0 - a), right=_angle(bc["top"], lambda a: 90.0 - a),
                       bottom=_angle(bc["left"], lambda a: 90.0 - a), top=_angle(bc["right"], lambda a: 90.0 - a))
            RT, _, _, _, _ = rhs2d(gam, ny, nx, ly, lx, flux, recon, bcT, [T(rho), np.vstack([T(u[1]), T(u[0])]), T(p)])
            tr = max(max_ulps(RT[0], T(R[0]), sc[0]), max_ulps(RT[1], T(R[2]), sc[0]), max_ulps(RT[2], T(R[1]), sc[0]),
                     max_ulps(RT[3], T(R[3]), sc[0]))
            # mirror x
            X = lambda a: grid(a, nx, ny)[:, ::-1].reshape(-1)      # noqa: E731
            bcX = dict(left=_angle(bc["right"], lambda a: 180.0 - a), right=_angle(bc["left"], lambda a: 180.0 - a),
                       bottom=_angle(bc["bottom"], lambda a: 180.0 - a), top=_angle(bc["top"], lambda a: 180.0 - a))
            RX, _, _, _, _ = rhs2d(gam, nx, ny, lx, ly, flux, recon, bcX, [X(rho), np.vstack([-X(u[0]), X(u[1])]), X(p)])
            mx = max(max_ulps(RX[0], X(R[0]), sc[0]), max_ulps(RX[1], -X(R[1]), sc[0]), max_ulps(RX[2], X(R[2]), sc[0]),
                     max_ulps(RX[3], X(R[3]), sc[0]))
            # mirror y
            Y = lambda a: grid(a, nx, ny)[::-1, :].reshape(-1)      # noqa: E731
            bcY = dict(left=_angle(bc["left"], lambda a: -a), right=_angle(bc["right"], lambda a: -a),
                       bottom=_angle(bc["top"], lambda a: -a), top=_angle(bc["bottom"], lambda a: -a))
            RY, _, _, _, _ = rhs2d(gam, nx, ny, lx, ly, flux, recon, bcY, [Y(rho), np.vstack([Y(u[0]), -Y(u[1])]), Y(p)])
            my = max(max_ulps(RY[0], Y(R[0]), sc[0]), max_ulps(RY[1], Y(R[1]), sc[0]), max_ulps(RY[2], -Y(R[2]), sc[0]),
                     max_ulps(RY[3], Y(R[3]), sc[0]))
            recs.append(tok2(transpose=tr, mirx=mx, miry=my, nx=nx, ny=ny, flux=flux, recon=str(recon),
                             bc="/".join(bc[t]["type"] for t in ("left", "right", "bottom", "top")),
                             angle=1 if any("angle" in b for b in bc.values()) else 0))
        except Exception as ex:
            recs.append(O.raised_record(ex, nx=nx, ny=ny, flux=flux, recon=str(recon), bc=str({t: bc[t]["type"] for t in bc})))
    return recs


R1NAME = {("e1", None): "extrapol1", ("k", -1.0): "k-1", ("k", 0.0): "k0", ("k", 1.0 / 3.0): "k1/3", ("k", 1.0): "k1"}


def rows2d_cases(rnd, tier):
    """data that do not vary along y (x), zero transverse velocity: each row (column) of the 2D residual equals the 1D Euler
    residual with the same flux and the corresponding reconstruction; the transverse momentum residual is exactly zero"""
    recs = []
    ncase = 40 if tier == "quick" else 500
    for c in range(ncase):
        nline, nother = rnd.choice([(2, 1), (3, 2), (5, 3), (8, 2), (12, 4)])
        along_x = c % 2 == 0
        nx, ny = (nline, nother) if along_x else (nother, nline)
        h = rnd.choice([0.5, 0.25, 0.1])
        lx, ly = (nline * h, nother * 0.3) if along_x else (nother * 0.3, nline * h)
        flux = rnd.choice(["centered", "hlle"])
        recon = rnd.choice([("e1", None), ("k", -1.0), ("k", 1.0 / 3.0), ("k", 0.0), ("k", 1.0)])
        gam = rnd.choice([1.4, 5.0 / 3.0])
        kindbc = rnd.choice(["per", "sym", "duct", "sup", "duct", "tcud"])
        # inlet parameters of every regime: total pressure well above, close to, and BELOW the interior pressure (a blocked
        # inlet: the 1D condition clamps the Mach number to zero, the 2D one has to do the same), several total temperatures
        ptin, rtin, pout = rnd.choice([1.4, 1.4, 1.02, 0.8, 3.0]), rnd.choice([1.0, 0.8, 1.3]), rnd.choice([1.0, 0.9, 1.15])
        b1 = {"per": ({"type": "per"}, {"type": "per"}), "sym": ({"type": "sym"}, {"type": "sym"}),
              "duct": ({"type": "insub", "ptot": ptin, "rttot": rtin}, {"type": "outsub", "p": pout}),
              "tcud": ({"type": "outsub", "p": pout}, {"type": "insub", "ptot": ptin, "rttot": rtin}),      # flow towards -x / -y
              "sup": ({"type": "insup", "ptot": 2.8 * rnd.choice([1.0, 1.5]), "rttot": rtin, "p": 1.0}, {"type": "outsup"})}[kindbc]
        side = rnd.choice([{"type": "per"}, {"type": "sym"}])
        rho1 = np.array([rnd.uniform(0.9, 1.1) for _ in range(nline)])
        p1 = np.array([rnd.uniform(0.9, 1.1) for _ in range(nline)])
        u1 = np.array([rnd.uniform(0.2, 0.6) for _ in range(nline)]) * (3.5 if kindbc == "sup" else -1.0 if kindbc == "tcud" else 1.0)
        try:
            if along_x:
                bc = dict(left=b1[0], right=b1[1], bottom=side, top=side)
                rho, p, un = np.tile(rho1, ny), np.tile(p1, ny), np.tile(u1, ny)
                u = np.vstack([un, np.zeros(nx * ny)])
            else:
                bc = dict(bottom=b1[0], top=b1[1], left=side, right=side)
                rho, p, un = np.repeat(rho1, nx), np.repeat(p1, nx), np.repeat(u1, nx)
                u = np.vstack([np.zeros(nx * ny), un])
            R, _, _, _, _ = rhs2d(gam, nx, ny, lx, ly, flux, recon, bc, [rho, u, p])
            # 1D twin
            m1 = fd.uniform(nline, length=nline * h)
            mod1 = fd.euler.euler1d(gamma=gam)
            d1 = fd.modeldisc.fvm(mod1, m1, fd.recon(R1NAME[recon]), numflux=flux, bcL=b1[0], bcR=b1[1])
            f1 = field_from_prim(mod1, m1, [rho1, u1, p1])
            with np.errstate(all="ignore"):
                R1 = [np.array(r) for r in d1.rhs(f1)]
            sc = max(float(np.max(np.abs(r))) for r in R1) + flux_scale(gam, rho1, u1, p1, h)
            worst = 0
            G = [grid(r, nx, ny) for r in R]
            normal, transverse = (G[1], G[2]) if along_x else (G[2], G[1])
            for j in range(nother):
                line = (lambda g: g[j, :]) if along_x else (lambda g: g[:, j])      # noqa: E731
                worst = max(worst, max_ulps(line(G[0]), R1[0], sc), max_ulps(line(normal), R1[1], sc), max_ulps(line(G[3]), R1[2], sc))
            recs.append(tok2(rows=worst, transverse=int(np.sum(transverse != 0.0)), nx=nx, ny=ny, flux=flux, recon=str(recon),
                             bc=kindbc + "/" + side["type"], along="x" if along_x else "y",
                             regime="blocked" if kindbc in ("duct", "tcud") and ptin < 1.0 else ""))
        except Exception as ex:
            recs.append(O.raised_record(ex, nx=nx, ny=ny, flux=flux, recon=str(recon), bc=kindbc))
    return recs


# ----------------------------------------------------------------------------- C13: reflection and change of units (1D)
EULER_BCS_SUB_IN = ["insub", "insub_cbc", "dirichlet"]
EULER_BCS_SUB_OUT = ["outsub", "outsub_prim", "outsub_qtot", "outsub_rh", "outsub_nrcbc", "dirichlet"]


def euler_bc(name, gam, state, side_dir):
    """parameter dictionary of an Euler boundary condition around a reference state (rho, u, p) for the flow direction given"""
    rho, u, p = state
    a2 = gam * p / rho
    m2 = u * u / a2
    fm = 1.0 + 0.5 * (gam - 1.0) * m2
    ptot, rttot = p * fm ** (gam / (gam - 1.0)), p / rho * fm
    if name in ("insub", "insub_cbc"):
        return {"type": name, "ptot": ptot * 1.05, "rttot": rttot * 1.02}
    if name == "insup":
        return {"type": name, "ptot": ptot, "rttot": rttot, "p": p}
    if name.startswith("outsub"):
        return {"type": name, "p": p * 0.97}
    if name == "dirichlet":
        return {"type": "dirichlet", "prim": [rho, u, p]}
    return {"type": name}


def mirror_bc(b):
    b = dict(b)
    if b.get("type") == "dirichlet" and len(b["prim"]) == 3:
        b["prim"] = [b["prim"][0], -b["prim"][1], b["prim"][2]]
    elif b.get("type") == "dirichlet" and len(b["prim"]) == 2:
        b["prim"] = [b["prim"][0], -b["prim"][1]]
    return b


def problem_1d(rnd, kind, implicit=False, uniform=False):
    """a random admissible 1D problem: dict(model kw, mesh faces, recon, flux, bcL, bcR, prim)"""
    n = rnd.choice([2, 3, 5, 8, 13])
    if uniform:
        xf = np.linspace(0.0, rnd.choice([1.0, 2.0]), n + 1)
    else:
        w = np.array([rnd.choice([0.25, 0.5, 1.0, 0.75, 0.1]) for _ in range(n)])
        xf = np.concatenate([[0.0], np.cumsum(w)]) + rnd.choice([0.0, -1.5])
    recon = rnd.choice(fd.TOKEN_RECONS if not implicit else fd.LINEAR_RECONS + ["muscl_vanalbada"])
    flux = rnd.choice(FLUXES[kind])
    P = dict(kind=kind, xf=xf, recon=recon, flux=flux, n=n)
    wv = np.diff(xf)
    mild = not rough_ok(recon) or implicit or (recon.startswith("muscl") and float(np.max(wv)) > 1.5 * float(np.min(wv)))
    if kind == "convection":
        P["mkw"] = dict(a=rnd.choice([1.0, -1.0, 2.5, -0.3]))
        P["prim"] = random_prim(kind, rnd, n, mild=mild)
        bcs = [({"type": "per"}, {"type": "per"}), ({"type": "dirichlet", "prim": [0.5]}, {"type": "dirichlet", "prim": [-1.0]})]
    elif kind == "burgers":
        P["mkw"] = {}
        P["prim"] = random_prim(kind, rnd, n, mild=mild)
        bcs = [({"type": "per"}, {"type": "per"}), ({"type": "dirichlet", "prim": [1.0]}, {"type": "dirichlet", "prim": [0.5]})]
    elif kind == "shallowwater":
        P["mkw"] = dict(g=rnd.choice([9.81, 1.0, 8.0]))
        P["prim"] = random_prim(kind, rnd, n, mild=mild, nonrest=implicit)
        bcs = [({"type": "per"}, {"type": "per"}), ({"type": "sym"}, {"type": "sym"}), ({"type": "inf"}, {"type": "sym"}),
               ({"type": "dirichlet", "prim": [1.0, 0.3]}, {"type": "inf"})]
        if implicit:     # a component with a vanishing mean makes the finite-difference Jacobian noisy (eps ~ mean|q|): no rest states
            bcs = [({"type": "per"}, {"type": "per"}), ({"type": "dirichlet", "prim": [1.0, 0.5]}, {"type": "inf"})]
    else:
        gam = rnd.choice([1.4, 5.0 / 3.0])
        P["mkw"] = dict(gamma=gam)
        regime = rnd.choice(["per", "wall", "sub", "sup"] if not implicit else ["per", "sub", "sup"])
        x = np.linspace(0, 1, n, endpoint=False)
        amp = 0.05 if mild else 0.3
        rho = 1.0 + amp * np.array([rnd.uniform(-1, 1) for _ in range(n)])
        p = 1.0 + amp * np.array([rnd.uniform(-1, 1) for _ in range(n)])
        s = rnd.choice([1.0, -1.0])
        if regime in ("sub", "mixed"):
            u = s * (0.5 + amp * np.array([rnd.uniform(-1, 1) for _ in range(n)]))
        elif regime == "sup":
            u = s * (2.5 + amp * np.array([rnd.uniform(-1, 1) for _ in range(n)]))
        else:
            u = amp * np.array([rnd.uniform(-1, 1) for _ in range(n)]) + \
                (rnd.choice([0.0, 0.4, -1.7] if not implicit else [0.4, -1.7]) if regime == "per" else 0.0)
        P["prim"] = [rho, u, p]
        ref = (1.0, float(np.mean(u)), 1.0)
        if regime == "per":
            bcs = [({"type": "per"}, {"type": "per"})]
        elif regime == "wall":
            bcs = [({"type": "sym"}, {"type": "sym"})]
        elif regime == "sup":
            bi, bo = euler_bc("insup", gam, ref, 0), {"type": "outsup"}
            bcs = [(bi, bo) if s > 0 else (bo, bi)]
        else:
            bi = euler_bc(rnd.choice(EULER_BCS_SUB_IN), gam, ref, 0)
            bo = euler_bc(rnd.choice(EULER_BCS_SUB_OUT), gam, ref, 0)
            bcs = [(bi, bo) if s > 0 else (bo, bi)]
    P["bcL"], P["bcR"] = rnd.choice(bcs)
    return P


def build(P, mirror=False, scale=None):
    """real objects of problem P (optionally of its mirror image / of the problem in other units)"""
    kind = P["kind"]
    mkw = dict(P["mkw"])
    xf = np.array(P["xf"], dtype=float)
    prim = [np.array(p, dtype=float) for p in P["prim"]]
    bcL, bcR = dict(P["bcL"]), dict(P["bcR"])
    if mirror:
        xf = -xf[::-1]
        prim = [p[::-1].copy() for p in prim]
        if kind == "convection":
            mkw["a"] = -mkw["a"]
        elif kind == "burgers":
            prim[0] = -prim[0]
        else:
            prim[1] = -prim[1]
        bcL, bcR = mirror_bc(P["bcR"]), mirror_bc(P["bcL"])
        if kind == "burgers":
            for b in (bcL, bcR):
                if b["type"] == "dirichlet":
                    b["prim"] = [-b["prim"][0]]
    if scale is not None:
        a, b, l = scale         # density (or height / scalar) unit, velocity unit, length unit
        xf = xf * l
        if kind == "convection":
            mkw["a"] = mkw["a"] * b
            prim[0] = prim[0] * a
        elif kind == "burgers":
            prim[0] = prim[0] * b
        elif kind == "shallowwater":
            mkw["g"] = mkw["g"] * b * b / a
            prim = [prim[0] * a, prim[1] * b]
        else:
            prim = [prim[0] * a, prim[1] * b, prim[2] * a * b * b]

        def sbc(bb):
            bb = dict(bb)
            if bb["type"] == "dirichlet":
                pr = bb["prim"]
                if kind == "convection":
                    bb["prim"] = [pr[0] * a]
                elif kind == "burgers":
                    bb["prim"] = [pr[0] * b]
                elif kind == "shallowwater":
                    bb["prim"] = [pr[0] * a, pr[1] * b]
                else:
                    bb["prim"] = [pr[0] * a, pr[1] * b, pr[2] * a * b * b]
            for key, fac in (("ptot", a * b * b), ("p", a * b * b), ("rttot", b * b)):
                if key in bb:
                    bb[key] = bb[key] * fac
            return bb
        bcL, bcR = sbc(bcL), sbc(bcR)
    model = make_model(kind, random.Random(0), **mkw)
    m = fd.mesh_from_faces(xf)
    disc = fd.modeldisc.fvm(model, m, fd.recon(P["recon"]), numflux=P["flux"], bcL=bcL, bcR=bcR)
    f = field_from_prim(model, m, prim)
    return model, m, disc, f


def parity(kind):
    return {"convection": [1], "burgers": [-1], "shallowwater": [1, -1]}.get(kind, [1, -1, 1])


def mirror_cases(rnd, tier):
    recs = []
    ncase = 80 if tier == "quick" else 1200
    kinds = list(FLUXES)
    for c in range(ncase):
        kind = kinds[c % len(kinds)]
        cls = rnd.choice(EXPLICIT + IMPLICIT) if c % 4 else "implicit"
        implicit = cls in IMPLICIT
        P = problem_1d(rnd, kind, implicit=implicit)
        try:
            model, m, disc, f = build(P)
            modelm, mm, discm, fm_ = build(P, mirror=True)
            with np.errstate(all="ignore"):
                R = [np.array(r) for r in disc.rhs(f)]
                Rm = [np.array(r) for r in discm.rhs(fm_)]
            par = parity(kind)
            worst = 0
            h = float(np.min(m.vol()))
            for q in range(model.neq):
                scr = max(float(np.max(np.abs(R[q]))), float(np.max(np.abs(f.data[q]))) / h * 3.0) + 1e-300
                worst = max(worst, max_ulps(par[q] * Rm[q][::-1], R[q], scr))
            cfl = 0.3 if not implicit else 0.5
            nit = rnd.choice([1, 3, 6])
            dtl = (c % 5 == 4)          # one case in five with the local-time-step directive: every cell its own step, mirrored too
            a = integrate(cls, m, disc, f, cfl, nit, dtlocal=dtl)
            b = integrate(cls, mm, discm, fm_, cfl, nit, dtlocal=dtl)
            if blew_up(a, f) or blew_up(b, fm_):
                recs.append(tok(mirror=worst, model=kind, flux=str(P["flux"]), recon=P["recon"], n=P["n"], integrator=cls,
                                bcl=P["bcL"]["type"], bcr=P["bcR"]["type"], unstable=1))
                continue
            for q in range(model.neq):
                sc = max(float(np.max(np.abs(a.data[q]))), float(np.max(np.abs(f.data[q])))) + 1e-300
                if implicit:
                    u = solver_tok(max_ulps(par[q] * b.data[q][::-1], a.data[q], sc, core.SOLVER_BITS))
                else:
                    u = max_ulps(par[q] * b.data[q][::-1], a.data[q], sc)
                worst = max(worst, u)
            if implicit:    # the step size follows the solution, which carries the solver noise
                worst = max(worst, solver_tok(core.ulps(a.time, b.time, max(a.time, 1e-300), core.SOLVER_BITS)))
            else:
                worst = max(worst, core.ulps(a.time, b.time, max(a.time, 1e-300)) if np.isfinite(a.time + b.time) else
                            (0 if (np.isnan(a.time) and np.isnan(b.time)) else core.ULP_CAP))
            recs.append(tok(mirror=worst, model=kind, flux=str(P["flux"]), recon=P["recon"], n=P["n"], integrator=cls,
                            bcl=P["bcL"]["type"], bcr=P["bcR"]["type"]))
        except Exception as ex:
            recs.append(O.raised_record(ex, model=kind, flux=str(P["flux"]), recon=P["recon"], n=P["n"], integrator=cls,
                                        bcl=P["bcL"]["type"], bcr=P["bcR"]["type"]))
    return recs


def scaling_cases(rnd, tier):
    """power-of-two change of units: the solution is rescaled bit for bit (explicit integrators)"""
    recs = []
    ncase = 80 if tier == "quick" else 1200
    kinds = list(FLUXES)
    for c in range(ncase):
        kind = kinds[c % len(kinds)]
        cls = rnd.choice(EXPLICIT)
        P = problem_1d(rnd, kind)
        if P["recon"] in ("muscl_vanalbada", "muscl_vanleer"):
            # the smooth limiters carry the dimensional constants 1e-20 / 1e-40: bitwise only while slopes^2 stay far above them
            sc = (2.0 ** rnd.randint(-3, 3), 2.0 ** rnd.randint(-3, 3), 2.0 ** rnd.randint(-3, 3))
        else:
            sc = (2.0 ** rnd.randint(-30, 30), 2.0 ** rnd.randint(-20, 20), 2.0 ** rnd.randint(-20, 20))
        a_, b_, l_ = sc
        try:
            model, m, disc, f = build(P)
            models, ms, discs, fs = build(P, scale=sc)
            nit = rnd.choice([1, 4])
            with np.errstate(all="ignore"):
                A = integrate(cls, m, disc, f, 0.3, nit)
                B = integrate(cls, ms, discs, fs, 0.3, nit)
            if kind == "convection":
                facs = [a_]
            elif kind == "burgers":
                facs = [b_]
            elif kind == "shallowwater":
                facs = [a_, a_ * b_]
            else:
                facs = [a_, a_ * b_, a_ * b_ * b_]
            bad = 0
            ro = 0
            diag = ""
            if blew_up(A, f) or blew_up(B, fs):
                recs.append(tok(scaling=0, scalero=0, finite=0, model=kind, flux=str(P["flux"]), recon=P["recon"], n=P["n"],
                                integrator=cls, bcl=P["bcL"]["type"], bcr=P["bcR"]["type"], unstable=1))
                continue
            smooth = P["recon"] in ("muscl_vanalbada", "muscl_vanleer")
            for q in range(model.neq):
                x, y = A.data[q] * facs[q], B.data[q]
                if smooth:      # homogeneous only up to the relative 1e-20/slope^2 the property states (C12): round-off clause
                    ro = max(ro, max_ulps(x, y, float(np.max(np.abs(x))) + 1e-300))
                else:
                    mism = ~((x == y) | (np.isnan(x) & np.isnan(y)))
                    bad += int(np.sum(mism))
                    if np.any(mism) and not diag:
                        k_ = int(np.argmax(mism))
                        diag = "eq %d cell %d: scaled original %r, rescaled problem %r; inputs %r / %r" % (
                            q, k_, float(x[k_]), float(y[k_]), [float(d[k_]) for d in f.data], [float(d[k_]) for d in fs.data])
            if smooth:
                ro = max(ro, core.ulps(A.time * (l_ / b_), B.time, max(B.time, 1e-300)))
            elif not (A.time * (l_ / b_) == B.time):
                bad += 1
                diag = diag or "time: scaled original %r, rescaled problem %r" % (A.time * (l_ / b_), B.time)
            finite = all(bool(np.all(np.isfinite(d))) for d in A.data)
            recs.append(tok(scaling=bad, scalero=ro, finite=1 if finite else 0, diag=diag, nit=nit, model=kind, flux=str(P["flux"]), recon=P["recon"], n=P["n"],
                            integrator=cls, bcl=P["bcL"]["type"], bcr=P["bcR"]["type"], units=[repr(x) for x in sc]))
        except Exception as ex:
            recs.append(O.raised_record(ex, model=kind, flux=str(P["flux"]), recon=P["recon"], n=P["n"], integrator=cls))
    return recs


# ----------------------------------------------------------------------------- C03: uniform and compatible steady states
def uniform_state(kind, rnd):
    if kind == "convection":
        return [rnd.choice([0.0, 1.0, -2.5, 1e-3, 3e4])]
    if kind == "burgers":
        return [rnd.choice([1.0, -0.7, 2.5, 1e-2])]
    if kind == "shallowwater":
        h = rnd.choice([1.0, 0.3, 7.5, 1e-2, 2e3])
        fr = rnd.choice([0.0, 0.3, -0.8, 1.7, -2.5])
        return [h, fr]          # Froude number; velocity set by caller with g
    rho = rnd.choice([1.0, 0.2, 9.0, 1e-3, 4e2])
    p = rnd.choice([1.0, 0.3, 12.0, 1e-2, 3e5])
    mach = rnd.choice([0.0, 0.05, 0.5, -0.7, 0.95, 1.3, -2.2, 3.0])
    return [rho, mach, p]


def matching_bcs(kind, gam, W, rnd):
    """boundary pairs whose parameters are those of the uniform state W = (rho, u, p) itself (inlet on the upstream side)"""
    out = [({"type": "per"}, {"type": "per"})]
    if kind in ("convection", "burgers"):
        out.append(({"type": "dirichlet", "prim": [W[0]]}, {"type": "dirichlet", "prim": [W[0]]}))
        return out
    if kind == "shallowwater":
        out.append(({"type": "dirichlet", "prim": list(W)}, {"type": "dirichlet", "prim": list(W)}))
        out.append(({"type": "inf"}, {"type": "inf"}))
        if W[1] == 0.0:
            out.append(({"type": "sym"}, {"type": "sym"}))
        return out
    rho, u, p = W
    model = fd.euler.euler1d(gamma=gam)
    q = model.prim2cons([np.array([rho]), np.array([u]), np.array([p])])
    ptot = float(model.nameddata("ptot", q)[0])        # the code's own variables (checked under C17)
    rttot = float(model.nameddata("rttot", q)[0])
    out.append(({"type": "dirichlet", "prim": [rho, u, p]}, {"type": "dirichlet", "prim": [rho, u, p]}))
    if u == 0.0:
        out.append(({"type": "sym"}, {"type": "sym"}))
        return out
    mach = abs(u) / math.sqrt(gam * p / rho)
    if mach < 1.0:
        ins = [{"type": "insub", "ptot": ptot, "rttot": rttot}, {"type": "insub_cbc", "ptot": ptot, "rttot": rttot}]
        outs = [{"type": t, "p": p} for t in ("outsub", "outsub_prim", "outsub_qtot", "outsub_rh", "outsub_nrcbc")]
    else:
        ins = [{"type": "insup", "ptot": ptot, "rttot": rttot, "p": p}]
        outs = [{"type": "outsup"}]
    for bi in ins:
        for bo in outs:
            out.append((bi, bo) if u > 0 else (bo, bi))
    return out


_BCPOOL = {}


def pooled_bc(b):
    d = _BCPOOL.setdefault(b["type"], {})
    d.update(b)
    return d


def uniform_cases(rnd, tier):
    recs = []
    ncase = 150 if tier == "quick" else 2500
    kinds = list(FLUXES)
    for c in range(ncase):
        kind = kinds[c % len(kinds)]
        flux = rnd.choice(FLUXES[kind])
        n = rnd.choice([1, 2, 3, 6, 17])
        m = K1.random_mesh(rnd, n)
        n = m.ncell
        recon = rnd.choice(fd.TOKEN_RECONS)
        W = uniform_state(kind, rnd)
        mkw = {}
        gam = 1.4
        if kind == "shallowwater":
            mkw["g"] = rnd.choice([9.81, 1.0])
            W = [W[0], W[1] * math.sqrt(mkw["g"] * W[0])]
        elif kind in ("euler1d", "nozzle"):
            gam = rnd.choice([1.4, 5.0 / 3.0, 1.2])
            mkw["gamma"] = gam
            W = [W[0], W[1] * math.sqrt(gam * W[2] / W[0]), W[2]]
            if kind == "nozzle":
                if c % 2 == 0:
                    W[1] = 0.0          # a nozzle at rest is preserved for ANY section law
                    mkw["section"] = rnd.choice([lambda x: 1.0 + 0.5 * x, lambda x: 2.0 - np.sin(3 * x) ** 2, lambda x: np.exp(-x)])
                    # a section law is admissible on a mesh when it stays positive and finite there (exp(-x) on a mesh of
                    # extent 4e6 underflows to a zero section; 1 + x/2 on a mesh starting at -7.3 is negative)
                    with np.errstate(all="ignore"):
                        sv = np.asarray(mkw["section"](np.asarray(m.xf, dtype=float)), dtype=float)
                    if not (np.all(np.isfinite(sv)) and np.min(sv) > 1e-3 * np.max(sv) and np.min(sv) > 0):
                        mkw["section"] = lambda x: 2.0 - np.sin(3 * x) ** 2
                else:
                    mkw["section"] = lambda x: 3.0 + 0.0 * x
        model = make_model(kind, rnd, **mkw)
        cands = matching_bcs(kind if kind != "nozzle" else "euler1d", gam, W, rnd)
        bcl, bcr = rnd.choice(cands if rnd.random() < 0.15 or len(cands) <= 2 else cands[2:])
        cls = rnd.choice(EXPLICIT + IMPLICIT)
        implicit = cls in IMPLICIT
        dtlocal = rnd.random() < 0.4
        # the user's boundary dictionaries live on: one dictionary object per condition type serves case after case, its values
        # rewritten in place (a parameter sweep); a condition answers for the values it is given now
        if bcl["type"] != bcr["type"]:
            bcl, bcr = pooled_bc(bcl), pooled_bc(bcr)
        try:
            disc = fd.modeldisc.fvm(model, m, fd.recon(recon), numflux=flux, bcL=bcl, bcR=bcr)
            f0 = field_from_prim(model, m, [np.full(n, w) for w in W])
            with np.errstate(all="ignore"):
                R = [np.array(r) for r in disc.rhs(f0)]
            # residual scale: |physical flux| / dx
            if kind == "convection":
                pf = [abs(mkw.get("a", model.convcoef) * W[0])]
            elif kind == "burgers":
                pf = [W[0] ** 2 / 2]
            elif kind == "shallowwater":
                cs = math.sqrt(mkw["g"] * W[0])
                pf = [W[0] * (abs(W[1]) + cs), W[0] * (abs(W[1]) + cs) ** 2]
            else:
                cs = math.sqrt(gam * W[2] / W[0])
                vm = abs(W[1]) + cs
                pf = [W[0] * vm, W[0] * vm * vm + W[2], W[0] * vm * (vm * vm + cs * cs / (gam - 1.0))]
            vol = np.asarray(m.vol())
            unif = 0
            for q in range(model.neq):
                unif = max(unif, max_ulps(R[q] * vol, 0.0 * vol, pf[q] if pf[q] > 0 else 1.0))
            nit = rnd.choice([1, 5, 20]) if tier != "quick" else rnd.choice([1, 5])
            cfl = 0.4 if not implicit else rnd.choice([0.5, 3.0])
            if kind == "burgers" or (kind == "convection"):
                pass
            f1 = integrate(cls, m, disc, f0, cfl, nit, dtlocal=dtlocal)
            us = 0
            for q in range(model.neq):
                sc = max(float(np.max(np.abs(f0.data[q]))), pf[q] / max(abs(W[1]) + 1e-300 if len(W) > 1 else 1.0, 1e-300) * 0 + 0.0)
                sc = max(sc, float(np.max(np.abs(f0.data[-1]))) if kind not in ("convection", "burgers") else sc, 1e-300)
                if implicit:
                    us = max(us, solver_tok(max_ulps(f1.data[q], f0.data[q], sc, core.SOLVER_BITS)) * 256)
                else:
                    us = max(us, max_ulps(f1.data[q], f0.data[q], sc) // max(1, nit))
            feature = ""
            if kind in ("euler1d", "nozzle") and len(W) == 3 and W[1] != 0.0:
                mach_ = abs(W[1]) / math.sqrt(gam * W[2] / W[0])
                if mach_ < 0.1 and ({bcl["type"], bcr["type"]} & {"insub", "outsub_qtot"}):
                    feature = "lowmach_reflecting_inlet_outlet"
            recs.append(tok(unif=unif, unifsolve=min(us, core.ULP_CAP), implicit=1 if implicit else 0, model=kind, flux=str(flux),
                            recon=recon, n=n, integrator=cls, bcl=bcl["type"], bcr=bcr["type"], dtlocal=1 if dtlocal else 0,
                            state=[repr(float(w)) for w in W], feature=feature, nit=nit))
        except Exception as ex:
            recs.append(O.raised_record(ex, model=kind, flux=str(flux), recon=recon, n=n, integrator=cls, bcl=bcl["type"], bcr=bcr["type"]))
    return recs


def lowmach_witness():
    """the recorded finding D19 made visible on every run: a uniform Mach 0.05 flow with matching insub / outsub parameters is
    an UNSTABLE fixed point of the explicit scheme (the inlet velocity responds to the interior pressure with a gain
    ~ 1/(gamma M^2)): a 1e-10 pressure perturbation grows by x1.56 per iteration"""
    gam, n = 1.4, 10
    model = fd.euler.euler1d(gamma=gam)
    W = [1.0, 0.05 * math.sqrt(gam), 1.0]
    m = fd.uniform(n)
    bl, br = [(x, y) for (x, y) in matching_bcs("euler1d", gam, W, None) if x["type"] == "insub" and y["type"] == "outsub"][0]
    disc = fd.modeldisc.fvm(model, m, fd.recon("extrapol1"), numflux="hllc", bcL=bl, bcR=br)
    f0 = field_from_prim(model, m, [np.full(n, w) for w in W])
    f = f0.copy()
    f.data[2] = f.data[2] * (1.0 + 1e-10 * np.cos(np.arange(n)))      # round-off sized seed, so that the witness is deterministic
    with np.errstate(all="ignore"):
        g = fd.tnum.rk3ssp(m, disc).solve(f, 0.4, stop={"maxit": 40})[-1]
    us = max(max_ulps(g.data[q], f0.data[q], float(np.max(np.abs(f0.data[2])))) for q in range(3))
    # judged against the perturbation itself: it must not have grown (2^22 ulps = 1e-9 > 1e-10)
    return tok(unifsolve=us, implicit=0, model="euler1d", flux="hllc", recon="extrapol1", n=n, integrator="rk3ssp",
               bcl="insub", bcr="outsub", dtlocal=0, state=[repr(w) for w in W], feature="lowmach_reflecting_inlet_outlet", nit=40,
               witness=1)


def uniform2d_cases(rnd, tier):
    recs = []
    ncase = 40 if tier == "quick" else 500
    for c in range(ncase):
        nx, ny = rnd.choice([(1, 1), (2, 3), (4, 2), (5, 5)])
        flux = rnd.choice(["centered", "hlle"])
        recon = rnd.choice([("e1", None), ("k", -1.0), ("k", 1.0 / 3.0), ("k", 1.0)])
        gam = rnd.choice([1.4, 5.0 / 3.0])
        rho, p = rnd.choice([1.0, 0.3, 40.0]), rnd.choice([1.0, 0.2, 1e3])
        cs = math.sqrt(gam * p / rho)
        # configurations are cycled (not left to chance): periodic at any angle, walls at rest, supersonic oblique inflow, duct
        cfg = ["per", "insup_angle", "sym", "duct", "farfield", "per"][c % 6]
        if cfg == "per":
            mach = rnd.choice([0.0, 0.4, 0.9, 2.0])
            ang = rnd.choice([0.0, 30.0, 90.0, 135.0, -60.0, 180.0])
        elif cfg == "insup_angle":
            mach, ang = rnd.choice([1.5, 2.0, 3.0]), rnd.choice([30.0, -60.0, 20.0, -35.0, 0.0, 45.0])
        elif cfg == "farfield":
            # far-field box: the flow direction takes the degenerate values too (exactly 0, a right angle, a straight angle)
            mach, ang = rnd.choice([1.5, 2.0, 3.0]), [0.0, 90.0, 180.0, -90.0, 30.0, -135.0, 0.0, -0.0][(c // 6) % 8]
        elif cfg == "sym":
            mach, ang = 0.0, 0.0
        else:
            mach, ang = rnd.choice([0.4, 0.9]), 0.0
        ux, uy = mach * cs * math.cos(math.radians(ang)), mach * cs * math.sin(math.radians(ang))
        model0 = fd.euler.euler2d(gamma=gam)
        q = model0.prim2cons([np.array([rho]), np.array([[ux], [uy]]), np.array([p])])
        per = {"type": "per"}
        bcl = dict(left=per, right=per, bottom=per, top=per)
        kindbc = "per"
        if cfg == "sym":
            bcl = {t: {"type": "sym"} for t in bcl}
            kindbc = "sym"
        elif cfg == "insup_angle":
            # supersonic inflow from the left at an angle: left = insup(angle), right supersonic outflow, periodic in y
            ptot = float(model0.nameddata("ptot", q)[0])
            rttot = float(model0.nameddata("rttot", q)[0])
            bcl = dict(left={"type": "insup", "ptot": ptot, "rttot": rttot, "p": p, "angle": ang}, right={"type": "outsup"},
                       bottom=per, top=per)
            kindbc = "insup_angle"
        elif cfg == "farfield":
            # every side of the box: the imposed supersonic state (with its own ptot, rttot, p and flow angle) where the flow
            # enters or runs along the side, supersonic outflow where it leaves
            ptot = float(model0.nameddata("ptot", q)[0])
            rttot = float(model0.nameddata("rttot", q)[0])
            inward = {"left": (1.0, 0.0), "right": (-1.0, 0.0), "bottom": (0.0, 1.0), "top": (0.0, -1.0)}
            ca, sa = math.cos(math.radians(ang)), math.sin(math.radians(ang))
            bcl = {}
            for side, (nx_, ny_) in inward.items():
                if ca * nx_ + sa * ny_ > -1e-9:
                    bcl[side] = {"type": "insup", "ptot": ptot, "rttot": rttot, "p": p, "angle": ang}
                else:
                    bcl[side] = {"type": "outsup"}
            kindbc = "farfield"
        elif cfg == "duct":
            ptot = float(model0.nameddata("ptot", q)[0])
            rttot = float(model0.nameddata("rttot", q)[0])
            bcl = dict(left={"type": "insub", "ptot": ptot, "rttot": rttot}, right={"type": "outsub", "p": p},
                       bottom={"type": "sym"}, top={"type": "sym"})
            kindbc = "duct"
        try:
            model, m, disc = euler2d_problem(rnd, nx, ny, flux, recon, bcl, gamma=gam)
            n = nx * ny
            f0 = cons2d(model, m, [np.full(n, rho), np.vstack([np.full(n, ux), np.full(n, uy)]), np.full(n, p)])
            with np.errstate(all="ignore"):
                R = disc.rhs(f0)
            vm = mach * cs + cs
            h = min(m.dx(), m.dy())
            pf = [rho * vm, rho * vm * vm + p, rho * vm * (vm * vm + cs * cs / (gam - 1.0))]
            unif = max(max_ulps(np.asarray(R[0]) * h, 0.0 * np.asarray(R[0]), pf[0]),
                       max_ulps(np.asarray(R[1]) * h, 0.0 * np.asarray(R[1]), pf[1]),
                       max_ulps(np.asarray(R[2]) * h, 0.0 * np.asarray(R[2]), pf[2]))
            cls = rnd.choice(["explicit", "rk2", "rk3ssp", "rk4", "lsrk26bb"])
            nit = rnd.choice([1, 6])
            f1 = integrate(cls, m, disc, f0, 0.4, nit, dtlocal=rnd.random() < 0.3)
            us = 0
            for qd in range(3):
                sc = float(np.max(np.abs(f0.data[2]))) if qd else float(np.max(np.abs(f0.data[0])))
                us = max(us, max_ulps(f1.data[qd], f0.data[qd], max(sc, rho * vm)) // nit)
            recs.append(tok2(unif=unif, unifsolve=us, nx=nx, ny=ny, flux=flux, recon=str(recon), bc=kindbc, mach=mach, angle=ang,
                             integrator=cls))
        except Exception as ex:
            recs.append(O.raised_record(ex, nx=nx, ny=ny, flux=flux, recon=str(recon), bc=kindbc))
    return recs


# ----------------------------------------------------------------------------- C19: source terms
def source_cases(rnd, tier):
    """(operators are built with the plain flowdyn.modeldisc here: the sibling history is laid out explicitly below, and the
    recording sources must see the judged evaluations only)
    rhs_with - rhs_without = source_i(x, Q) on equation i (0 elsewhere); callables get (cell centres, conservative data);
    nozzle: user sources are ADDED to the geometric ones, which are -g (rho u, rho u^2, rho u H), zero for a constant section"""
    recs = []
    ncase = 80 if tier == "quick" else 1000
    kinds = ["euler1d", "nozzle", "shallowwater"]
    for c in range(ncase):
        kind = kinds[c % 3]
        neq = 2 if kind == "shallowwater" else 3
        n = rnd.choice([1, 2, 4, 9, 20])
        m = K1.random_mesh(rnd, n)
        forced_section = None
        if kind == "nozzle" and c % 9 == 1:        # every third nozzle: a microscopic mesh (section variation per cell ~1e-8 .. 1e-10)
            m = fd.mesh.refinedmesh(ncell=max(n, 4), length=[2e-7, 3e-9][(c // 9) % 2], ratio=2.0)
            forced_section = (1.0, 0.5)
        elif kind == "nozzle" and c % 9 == 4:      # ... and every third: a gentle taper on a fine ordinary mesh
            m = fd.uniform(20, length=1.0)
            forced_section = (1.0, [1e-4, -3e-6][(c // 9) % 2])
        n = m.ncell
        recon = rnd.choice(fd.TOKEN_RECONS)
        flux = rnd.choice(FLUXES[kind])
        subset = [rnd.random() < 0.6 for _ in range(neq)]
        calls = []
        coefs = [rnd.choice([0.5, -2.0, 1.0, 3.25]) for _ in range(neq)]
        shape = rnd.choice(["state", "position", "const", "tabulated", "tabulated"])
        tables = {}

        form = ["closure", "default", "object", "partial", "method"][(c // 3) % 5]     # how the user wrote the callable
        if c % 7 == 3:
            # "every list of per-equation source functions" includes the list that names ONE function for several equations
            # ([heat, heat, None], [f] * neq): each of those equations receives it once (seed C19h: the equation looked up by
            # `source.index(callable)`, which finds the first slot only)
            form = "shared"
            if sum(subset) < 2:
                subset = [True] * neq
        shared = {}

        def mk(i):
            def body(x, q, k):
                calls.append((i, np.array(x, dtype=float).copy(), [np.array(d, dtype=float).copy() for d in q]))
                if shape == "state":
                    return k * q[(i + 1) % neq] * (1.0 + x)
                if shape == "position":
                    return k * np.sin(x) + 0.0 * q[0]
                if shape == "tabulated":        # a profile computed once and returned (the SAME array object) at every call
                    if i not in tables:
                        tables[i] = k * (1.0 + np.cos(x))
                        tables[(i, "copy")] = tables[i].copy()
                    return tables[i]
                return k + 0.0 * x
            if form == "shared":
                if "f" not in shared:
                    i = -1
                    shared["f"] = lambda x, q: body(x, q, coefs[0])
                return shared["f"]
            if form == "default":               # the loop-binding idiom (lambda x, q, k=k: ...): a THIRD positional parameter
                def src(x, q, k=coefs[i]):
                    return body(x, q, k)
                return src
            if form == "partial":
                import functools
                return functools.partial(lambda k, x, q: body(x, q, k), coefs[i])
            if form in ("object", "method"):
                class _Src:
                    def __init__(self, k):
                        self.k = k

                    def __call__(self, x, q):
                        return body(x, q, self.k)

                    def value(self, x, q):
                        return body(x, q, self.k)
                return _Src(coefs[i]) if form == "object" else _Src(coefs[i]).value
            return lambda x, q: body(x, q, coefs[i])
        srcs = [mk(i) if subset[i] else None for i in range(neq)]
        bcl, bcr = rnd.choice([({"type": "per"}, {"type": "per"}), ({"type": "sym"}, {"type": "sym"})])
        section = None
        try:
            if kind == "shallowwater":
                g = rnd.choice([9.81, 1.0])
                mw = fd.sw.shallowwater1d(g=g, source=srcs)
                m0 = fd.sw.shallowwater1d(g=g)
            elif kind == "euler1d":
                gam = rnd.choice([1.4, 5.0 / 3.0])
                mw = fd.euler.euler1d(gamma=gam, source=srcs)
                m0 = fd.euler.euler1d(gamma=gam)
            else:
                gam = rnd.choice([1.4, 5.0 / 3.0])
                a0, a1 = rnd.choice([(1.0, 0.0), (1.0, 0.5), (2.0, -0.25), (0.5, 1.0)])
                if forced_section is not None:
                    a0, a1 = forced_section
                section = (a0, a1)
                law = (lambda a0_, a1_: (lambda x: a0_ + a1_ * x))(a0, a1)
                mw = fd.euler.nozzle(law, gamma=gam, source=srcs)
                m0 = fd.euler.nozzle(law, gamma=gam)
            # history of the MODEL objects: the same model instances also serve operators on a sibling mesh (same cell count,
            # origin and length, other spacing), built before (c even) or after (c odd) the operators that are judged: an operator
            # answers for its own mesh, whatever other operators its model was given to
            sib = None
            if n >= 2:
                xf_ = np.asarray(m.xf, dtype=float)
                xi_ = np.linspace(0.0, 1.0, n + 1)
                faces_ = xf_[0] + (xf_[-1] - xf_[0]) * (xi_ + 0.3 * xi_ * (1.0 - xi_))
                faces_[-1] = xf_[-1]
                sib = fd.mesh_from_faces(faces_)
                if hasattr(m, "length"):
                    sib.length = m.length
            hist = "sibling-before" if c % 2 == 0 else "sibling-after"
            if sib is not None and hist == "sibling-before":
                fd._real_modeldisc.fvm(mw, sib, fd.recon(recon), numflux=flux, bcL=bcl, bcR=bcr)
                fd._real_modeldisc.fvm(m0, sib, fd.recon(recon), numflux=flux, bcL=bcl, bcR=bcr)
            dw = fd._real_modeldisc.fvm(mw, m, fd.recon(recon), numflux=flux, bcL=bcl, bcR=bcr)
            d0 = fd._real_modeldisc.fvm(m0, m, fd.recon(recon), numflux=flux, bcL=bcl, bcR=bcr)
            if sib is not None and hist == "sibling-after":
                fd._real_modeldisc.fvm(mw, sib, fd.recon(recon), numflux=flux, bcL=bcl, bcR=bcr)
                fd._real_modeldisc.fvm(m0, sib, fd.recon(recon), numflux=flux, bcL=bcl, bcR=bcr)
            prim = random_prim(kind if kind != "nozzle" else "euler1d", rnd, n, mild=not rough_ok(recon, m))
            if section is not None and section[1] != 0 and np.min(section[0] + section[1] * np.asarray(m.xf)) <= 0.05:
                continue        # the section must stay positive on the mesh
            fw = field_from_prim(mw, m, prim)
            f0 = field_from_prim(m0, m, prim)
            xc0 = np.asarray(m.centers(), dtype=float).copy()
            with np.errstate(all="ignore"):
                Rw = [np.array(r, dtype=float) for r in dw.rhs(fw)]
                ncalls = len(calls)
                # the operator is evaluated again (as every integrator does): sources are added exactly once each time
                for _rep in range(2):
                    Rw = [np.array(r, dtype=float) for r in dw.rhs(fw)]
                R0 = [np.array(r, dtype=float) for r in d0.rhs(f0)]
            for key in list(tables):
                if isinstance(key, int) and not np.array_equal(tables[key], tables[(key, "copy")]):
                    tables[key][:] = tables[(key, "copy")]
                    user_modified = True
                    break
            else:
                user_modified = False
            worst = 0
            xc = np.asarray(m.centers(), dtype=float)
            for i in range(neq):
                want = np.zeros(n)
                if subset[i]:
                    want = np.asarray(srcs[i](xc, [np.array(d) for d in fw.data]), dtype=float)
                for k in range(n):
                    sc = abs(R0[i][k]) + abs(want[k]) + abs(Rw[i][k])
                    if sc == 0:
                        continue
                    worst = max(worst, core.ulps(F(float(Rw[i][k])) - F(float(R0[i][k])), F(float(want[k])), sc))
            args = 0 if user_modified else 1        # the user's own arrays (returned by a source) must not be written to
            seen = [cl for cl in calls[:ncalls]]
            if len(seen) != sum(subset):
                args = 0
            for (i, x, q) in seen:
                if not (np.array_equal(x, xc) and all(np.array_equal(a, b) for a, b in zip(q, fw.data))):
                    args = 0
            if not np.array_equal(np.asarray(m.centers(), dtype=float), xc0):
                args = 0                                   # the mesh centres handed to the sources were modified
            rec = dict(kind="src", diff=worst, tol=8, args=args, model=kind, flux=str(flux), recon=recon, n=n,
                       subset=[int(b) for b in subset], shape=shape, geom=0, history=hist)
            recs.append(rec)
            # geometric source of the nozzle alone against its definition, in exact arithmetic (linear section laws)
            if kind == "nozzle":
                me = fd.euler.euler1d(gamma=gam)
                de = fd._real_modeldisc.fvm(me, m, fd.recon(recon), numflux=flux, bcL=bcl, bcR=bcr)
                fe = field_from_prim(me, m, prim)
                with np.errstate(all="ignore"):
                    Re = [np.array(r, dtype=float) for r in de.rhs(fe)]
                xf = [F(float(x)) for x in m.xf]
                a0f, a1f = F(section[0]), F(section[1])
                G = F(gam)
                gworst = 0
                # absolute round-off allowance of a flux balance: (F_right - F_left) / dx carries eps x |F| / dx whatever the
                # balance itself is worth; where the two fluxes cancel by chance in one cell (balance 0.04 among neighbours of
                # 1e8 on a mesh of 1e-10 cells: thorough tier, seed 2, Appendix B item 32) the local scale below says nothing
                # about it.  |F| = physical flux + the dissipation scale (|u| + c) |Q| of the Riemann fluxes; factor 64.
                with np.errstate(all="ignore"):
                    rho_, mom_, en_ = (np.asarray(fe.data[j], dtype=float) for j in range(3))
                    p_ = (gam - 1.0) * (en_ - 0.5 * mom_ * mom_ / rho_)
                    smax_ = float(np.max(np.abs(mom_ / rho_) + np.sqrt(np.abs(gam * p_ / rho_))))
                    fscale = [float(np.max(np.abs(mom_))) + smax_ * float(np.max(np.abs(rho_))),
                              float(np.max(np.abs(mom_ * mom_ / rho_ + p_))) + smax_ * float(np.max(np.abs(mom_))),
                              float(np.max(np.abs(mom_ * (en_ + p_) / rho_))) + smax_ * float(np.max(np.abs(en_)))]
                for k in range(n):
                    xcq = F(float(xc[k]))
                    gterm = ((a0f + a1f * xf[k + 1]) - (a0f + a1f * xf[k])) / ((xf[k + 1] - xf[k]) * (a0f + a1f * xcq))
                    rho, mom, en = (F(float(fe.data[j][k])) for j in range(3))
                    ec = mom * mom / rho / 2
                    want = [-gterm * mom, -gterm * mom * mom / rho, -gterm * mom * ((en - ec) * G + ec) / rho]
                    for j in range(3):
                        sc = abs(float(want[j])) + abs(Re[j][k]) + abs(R0[j][k])
                        if sc == 0:
                            continue
                        allow = 64.0 * 2.0 ** -52 * fscale[j] / float(xf[k + 1] - xf[k])
                        if math.isfinite(allow) and abs(F(float(R0[j][k])) - F(float(Re[j][k])) - want[j]) <= F(allow):
                            continue
                        gworst = max(gworst, core.ulps(F(float(R0[j][k])) - F(float(Re[j][k])), want[j], sc))
                if gworst > 2 ** 22 and os.environ.get("VERIF_DEBUG"):
                    sys.stderr.write("DEBUG geom c=%d n=%d mesh=%r hist=%s section=%r\n xf=%r\n R0=%r\n Re=%r\n prim=%r\n form=%s subset=%r\n" % (
                        c, n, type(m).__name__, hist, section, list(m.xf), R0, Re, prim, form, subset))
                recs.append(dict(kind="src", diff=gworst, tol=2 ** 22, args=1, model="nozzle_geometric", flux=str(flux), recon=recon, n=n,
                                 subset=[], shape="section a0=%s a1=%s" % section, geom=1, history=hist))
        except Exception as ex:
            recs.append(O.raised_record(ex, model=kind, flux=str(flux), recon=recon, n=n, subset=[int(b) for b in subset]))
    return recs
