----------------------------- MODULE Positivity -----------------------------
(***************************************************************************)
(* C10: one forward-Euler step of the first-order scheme keeps density and  *)
(* pressure (water depth) positive.  The update of a cell depends on three  *)
(* cells only, so enumerating ALL triples of a grid of exact-point states   *)
(* is the complete one-step induction on that grid (SSP integrators are     *)
(* convex combinations of such steps: C05).                                 *)
(***************************************************************************)
EXTENDS Fluxes

(* conservative variables of exact-point states *)
EuU(gam, W) == <<W.rho, RMul(W.rho, W.u), RMul(W.rho, EuE(gam, W))>>       \* rho E = rho (H - p/rho)
SwU(g, W) == <<SwH(g, W), RMul(SwH(g, W), W.u)>>
Speed(W) == RAdd(RAbs(W.u), W.c)
Max3(a, b, c) == RMax(a, RMax(b, c))

(* new conservative state of the middle cell: U - (dt/dx) (F(M, Rr) - F(L, M)),  dt/dx = cfl / max speed of the triple *)
EuNew(gam, flux, L, M, Rr, cfl) ==
  LET lam == RDiv(cfl, Max3(Speed(L), Speed(M), Speed(Rr)))
      Fp == IF flux = "hlle" THEN EuHlle(gam, M, Rr) ELSE EuHllc(gam, M, Rr)
      Fm == IF flux = "hlle" THEN EuHlle(gam, L, M) ELSE EuHllc(gam, L, M)
      U == EuU(gam, M)
  IN [k \in 1..3 |-> RSub(U[k], RMul(lam, RSub(Fp[k], Fm[k])))]
EuPositive(gam, U) == /\ RSign(U[1]) > 0
                      /\ RSign(RSub(U[3], RDiv(RSq(U[2]), RMul(R(2), U[1])))) > 0      \* p = (gamma-1)(E - m^2/2rho) > 0
SwNew(g, flux, L, M, Rr, cfl, dev) ==
  LET lam == RDiv(cfl, Max3(Speed(L), Speed(M), Speed(Rr)))
      Fp == IF flux = "hll" THEN SwHll(g, M, Rr) ELSE SwRusanov(g, M, Rr, dev)
      Fm == IF flux = "hll" THEN SwHll(g, L, M) ELSE SwRusanov(g, L, M, dev)
      U == SwU(g, M)
  IN [k \in 1..2 |-> RSub(U[k], RMul(lam, RSub(Fp[k], Fm[k])))]
SwPositive(U) == RSign(U[1]) > 0
(* wall closure: the neighbour beyond a slip wall is the mirror image of the cell *)
=============================================================================
