#!/bin/bash
# usage: tools/seed_matrix.sh [parallelism]
# every seeded change against the CURRENT checks: scratch worktree of /repo's HEAD + the stored patch, the owning check at the
# quick tier; writes seeded/<id>/final_check.log and prints one line per seed.  Worktrees are removed as soon as used.
P=${1:-4}
cd /verif
one() {
  id=$1
  prop=$(python3 -c "import json;print(json.load(open('/verif/seeded/$id/meta.json'))['property'])")
  wt=/tmp/wt_matrix_$id
  git -C /repo worktree add --detach $wt HEAD >/dev/null 2>&1 || { echo "$id: cannot create worktree"; return; }
  if git -C $wt apply /verif/seeded/$id/patch.diff 2>/dev/null; then
    (cd /verif && FLOWDYN_REPO=$wt ./check $prop --tier quick 2>&1 | grep "VIOLATION\|quick:\|MACHINERY" | sed 's/replay=[^ ]*//' | cut -c1-200 | sort | uniq | head -6) > /verif/seeded/$id/${SEED_MATRIX_OUT:-final_check.log}
    n=$(grep -c VIOLATION /verif/seeded/$id/${SEED_MATRIX_OUT:-final_check.log})
    echo "$id: $prop violations-lines=$n $(grep -c MACHINERY /verif/seeded/$id/${SEED_MATRIX_OUT:-final_check.log} | sed 's/^0$//;s/^[1-9].*/MACHINERY-FAILURE/')"
  else
    echo "$id: patch does not apply to HEAD" | tee /verif/seeded/$id/final_check.log
  fi
  git -C /repo worktree remove --force $wt >/dev/null 2>&1
}
export -f one
ls /verif/seeded | xargs -P $P -I{} bash -c 'one {}'
git -C /repo worktree prune
