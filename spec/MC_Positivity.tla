---------------------------- MODULE MC_Positivity ----------------------------
EXTENDS Positivity
CONSTANTS PosDeviations, SwCs, SwUs, EuRhos, EuUs, EuCs
VARIABLES model, par, flux, cfl, L, M, Rr
vars == <<model, par, flux, cfl, L, M, Rr>>
NoneS == [rho |-> Zero, u |-> Zero, c |-> Zero]
SwCsDef == {Q(1, 10), Half, One, R(3)}           \* depth ratios up to 900 (h = c^2/g)
SwUsDef == {R(-3), R(-1), Zero, Half, R(2)}
EuRhosDef == {One, R(4)}
EuUsDef == {R(-2), Zero, One}
EuCsDef == {Half, One}
SwCsWide == {Q(1, 4), Half, One, R(2), R(3)}
SwUsWide == {R(-3), R(-2), R(-1), Zero, Half, One, R(2), R(3)}
EuRhosWide == {Q(1, 4), One, R(4)}
EuUsWide == {R(-2), R(-1), Zero, One, R(2)}
EuCsWide == {Half, One, Q(3, 2)}
SwSt == [rho : {One}, u : SwUs, c : SwCs]
EuSt == [rho : EuRhos, u : EuUs, c : EuCs]
St(m) == IF m = "sw" THEN SwSt ELSE EuSt
Init == /\ model \in {"sw", "euler"}
        /\ par \in (IF model = "sw" THEN {One, R(8)} ELSE {Q(7, 5), Q(5, 3)})
        /\ flux \in (IF model = "sw" THEN {"hll", "rusanov"} ELSE {"hlle", "hllc"})
        /\ cfl \in {Q(1, 4), Half}
        /\ L \in St(model) /\ M \in St(model) /\ Rr = NoneS
Pick == /\ Rr = NoneS /\ Rr' \in St(model) /\ UNCHANGED <<model, par, flux, cfl, L, M>>
Spec == Init /\ [][Pick]_vars
sw(W) == [c |-> W.c, u |-> W.u]
Has == Rr # NoneS
Positive ==
  Has => IF model = "sw" THEN SwPositive(SwNew(par, flux, sw(L), sw(M), sw(Rr), cfl, PosDeviations))
         ELSE (HllOK(par, L, M) /\ HllOK(par, M, Rr)) => EuPositive(par, EuNew(par, flux, L, M, Rr, cfl))
(* walls: the mirror image beyond the wall (left wall: L = mirror M ; right wall: Rr = mirror M) *)
PositiveWall ==
  (~Has) => IF model = "sw"
            THEN /\ SwPositive(SwNew(par, flux, SwMirror(sw(M)), sw(M), sw(L), cfl, PosDeviations))
                 /\ SwPositive(SwNew(par, flux, sw(L), sw(M), SwMirror(sw(M)), cfl, PosDeviations))
            ELSE /\ (HllOK(par, M, L) => EuPositive(par, EuNew(par, flux, EuMirror(M), M, L, cfl)))
                 /\ (HllOK(par, L, M) => EuPositive(par, EuNew(par, flux, L, M, EuMirror(M), cfl)))
=============================================================================
