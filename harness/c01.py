"""C01 discrete conservation: formal telescoping identity model checked for a FREE flux on all small meshes (FVM1D, FVM2D),
exact integer-arithmetic judgement of the real operators with the generic table flux, ulps tokens for every real model /
flux / reconstruction / boundary and for solves with every integrator."""
import os, random, sys
from . import core, fd
from . import fvm1d_cases as K1, fvm2d_cases as K2, real_cases as RC
from .fvm_check import run_check


def sig_of(r):
    return {"kind": r["kind"], "model": r.get("model", "table"), "flux": str(r.get("flux", "")), "recon": str(r.get("recon", "")),
            "integrator": r.get("integrator", "")}


def run(tier):
    rnd = random.Random(core.seed())
    g1 = K1.exact_rhs_cases(rnd, tier, want_sources=True) + K1.table_tok_cases(rnd, tier) + RC.cons_operator_cases(rnd, tier) \
        + RC.cons_solve_cases(rnd, tier)
    g2 = K2.exact2d_cases(rnd, tier) + RC.cons2d_cases(rnd, tier)
    return run_check(
        "C01", tier,
        rule="model: all lattice meshes x data x reconstructions x BC pairs with a free flux (formal identity sum vol*R = boundary "
             "fluxes), 2D grids up to 3x3; code: table-flux operator (exact), every real model/flux/recon/BC on random meshes "
             "(ulps of sum|F|), solves with every integrator (integrals per run, exact Fraction sums)",
        assumptions=["explicit solves: TolRoundoff = 2^22 ulps of the integral of |q|; implicit solves: TolSolver = 2^30 ulps scaled "
                     "by max(1, CFL) (the finite-difference Jacobian's columns sum to zero only to round-off/eps)",
                     "slip walls: mass and energy (height) only; imposed-state boundaries are covered by the operator identity",
                     "implicit integrators are not run on the 2D model (they raise on vector-valued momentum)"],
        mc_runs=[("MC_FVM1D", "MC_FVM1D_cons.cfg" if tier == "quick" else "MC_FVM1D_cons_f.cfg", 16),
                 ("MC_FVM2D", "MC_FVM2D_cons.cfg" if tier == "quick" else "MC_FVM2D_cons_f.cfg", 16)],
        groups=[("Judge_FVM1D", g1), ("Judge_FVM2D", g2)], prefixes=["C01"], sig_of=sig_of)


if __name__ == "__main__":
    sys.exit(run(os.environ.get("VERIF_TIER", "quick")))
