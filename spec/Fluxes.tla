------------------------------- MODULE Fluxes -------------------------------
(***************************************************************************)
(* Physical and numerical fluxes of flowdyn.modelphy in exact rationals     *)
(* (C02).  Square roots are avoided by working on EXACT-POINT states:       *)
(*   Euler state  [rho, u, c]  with rational sound speed, p = rho c^2/gamma *)
(*   shallow water [c, u]      with h = c^2 / g                             *)
(* and by evaluating Roe-type wave speeds only at pairs where the needed    *)
(* root is rational (IsSquare); selections min/max are then exact.          *)
(* States are records; fluxes are tuples of rationals.                      *)
(***************************************************************************)
EXTENDS Rat

(* ------------------------------------------------------------------ convection, Burgers *)
ConvPhys(a, q) == <<RMul(a, q)>>
ConvFlux(a, qL, qR) == <<RSub(RMul(RMul(a, Half), RAdd(qL, qR)), RMul(RMul(RAbs(a), Half), RSub(qR, qL)))>>
BurgersPhys(u) == <<RMul(Half, RSq(u))>>
(* upwind on the sign of (uL + uR)/2; the tie uL + uR = 0 belongs to the left state (pinned code: returned 0) *)
BurgersFlux(uL, uR, dev) == LET s == RSign(RAdd(uL, uR)) IN
  IF s > 0 THEN BurgersPhys(uL) ELSE IF s < 0 THEN BurgersPhys(uR)
  ELSE IF "BurgersTieZero" \in dev THEN <<Zero>> ELSE BurgersPhys(uL)

(* ------------------------------------------------------------------ shallow water: W = [c, u], h = c^2/g *)
SwH(g, W) == RDiv(RSq(W.c), g)
SwPhys(g, W) == LET h == SwH(g, W) IN
  <<RMul(h, W.u), RAdd(RMul(h, RSq(W.u)), RMul(RMul(Half, g), RSq(h)))>>
SwCentered(g, L, Rr) == LET a == SwPhys(g, L) b == SwPhys(g, Rr) IN <<RMul(Half, RAdd(a[1], b[1])), RMul(Half, RAdd(a[2], b[2]))>>
SwRusanov(g, L, Rr, dev) ==
  LET hL == SwH(g, L) hR == SwH(g, Rr)
      cmax == RMax(RAdd(RAbs(L.u), L.c), RAdd(RAbs(Rr.u), Rr.c))
      qL == RMul(hL, L.u) qR == RMul(hR, Rr.u)
      fR2 == IF "RusanovCubic" \in dev THEN RAdd(RMul(qR, RSq(Rr.u)), RMul(RMul(Half, g), RSq(hR))) ELSE SwPhys(g, Rr)[2]
  IN <<RSub(RMul(Half, RAdd(qL, qR)), RMul(RMul(Half, cmax), RSub(hR, hL))),
       RSub(RMul(Half, RAdd(SwPhys(g, L)[2], fR2)), RMul(RMul(Half, cmax), RSub(qR, qL)))>>
SwHll(g, L, Rr) ==
  LET hL == SwH(g, L) hR == SwH(g, Rr)
      sL == RMin(Zero, RMin(RSub(L.u, L.c), RSub(Rr.u, Rr.c)))
      sR == RMax(Zero, RMax(RAdd(L.u, L.c), RAdd(Rr.u, Rr.c)))
      kL == RDiv(sR, RSub(sR, sL)) kR == RDiv(RNeg(sL), RSub(sR, sL))
      qL == RMul(hL, L.u) qR == RMul(hR, Rr.u)
      fL == SwPhys(g, L) fR == SwPhys(g, Rr)
  IN <<RSub(RAdd(RMul(kL, fL[1]), RMul(kR, fR[1])), RMul(RMul(kR, sR), RSub(hR, hL))),
       RSub(RAdd(RMul(kL, fL[2]), RMul(kR, fR[2])), RMul(RMul(kR, sR), RSub(qR, qL)))>>
SwMirror(W) == [c |-> W.c, u |-> RNeg(W.u)]

(* ------------------------------------------------------------------ Euler 1D: W = [rho, u, c] *)
EuP(gam, W) == RDiv(RMul(W.rho, RSq(W.c)), gam)
EuH(gam, W) == RAdd(RDiv(RSq(W.c), RSub(gam, One)), RMul(Half, RSq(W.u)))
EuPhys(gam, W) == LET p == EuP(gam, W) m == RMul(W.rho, W.u) IN
  <<m, RAdd(RMul(m, W.u), p), RMul(m, EuH(gam, W))>>
EuMirror(W) == [rho |-> W.rho, u |-> RNeg(W.u), c |-> W.c]
EuCentered(gam, L, Rr) == LET a == EuPhys(gam, L) b == EuPhys(gam, Rr) IN [k \in 1..3 |-> RMul(Half, RAdd(a[k], b[k]))]
EuCenteredMassflow(gam, L, Rr) ==
  LET fr == RMul(Half, RAdd(RMul(L.rho, L.u), RMul(Rr.rho, Rr.u))) IN
  <<fr, RMul(Half, RAdd(RMul(fr, RAdd(L.u, Rr.u)), RAdd(EuP(gam, L), EuP(gam, Rr)))),
    RMul(RMul(Half, fr), RAdd(EuH(gam, L), EuH(gam, Rr)))>>

(* Roe average: needs sqrt(rhoR/rhoL) rational; cRoe^2 is always rational given that *)
RoeOK(L, Rr) == IsSquare(RDiv(Rr.rho, L.rho))
RoeR(L, Rr) == RSqrt(RDiv(Rr.rho, L.rho))
RoeU(L, Rr) == LET r == RoeR(L, Rr) IN RDiv(RAdd(L.u, RMul(Rr.u, r)), RAdd(One, r))
RoeC2(gam, L, Rr) == LET r == RoeR(L, Rr)
                         hh == RDiv(RAdd(EuH(gam, L), RMul(EuH(gam, Rr), r)), RAdd(One, r))
                     IN RMul(RSub(hh, RMul(Half, RSq(RoeU(L, Rr)))), RSub(gam, One))
(* the pair is an exact point for HLLE/HLLC when the Roe sound speed is rational too *)
HllOK(gam, L, Rr) == RoeOK(L, Rr) /\ RSign(RoeC2(gam, L, Rr)) > 0 /\ IsSquare(RoeC2(gam, L, Rr))
RoeC(gam, L, Rr) == RSqrt(RoeC2(gam, L, Rr))
EuE(gam, W) == RSub(EuH(gam, W), RDiv(EuP(gam, W), W.rho))      \* the code's "e" = H - p/rho
EuHlle(gam, L, Rr) ==
  LET uR == RoeU(L, Rr) cR == RoeC(gam, L, Rr)
      sL == RMin(Zero, RMin(RSub(uR, cR), RSub(L.u, L.c)))
      sR == RMax(Zero, RMax(RAdd(uR, cR), RAdd(Rr.u, Rr.c)))
      fL == EuPhys(gam, L) fR == EuPhys(gam, Rr)
      UL == <<L.rho, RMul(L.rho, L.u), RMul(L.rho, EuE(gam, L))>>
      UR == <<Rr.rho, RMul(Rr.rho, Rr.u), RMul(Rr.rho, EuE(gam, Rr))>>
  IN [k \in 1..3 |-> RDiv(RAdd(RSub(RMul(sR, fL[k]), RMul(sL, fR[k])), RMul(RMul(sL, sR), RSub(UR[k], UL[k]))), RSub(sR, sL))]
EuHllc(gam, L, Rr) ==
  LET uRo == RoeU(L, Rr) cRo == RoeC(gam, L, Rr)
      sL == RMin(RSub(uRo, cRo), RSub(L.u, L.c))
      sR == RMax(RAdd(uRo, cRo), RAdd(Rr.u, Rr.c))
      pL == EuP(gam, L) pR == EuP(gam, Rr)
      sM == RDiv(RAdd(RSub(RSub(pL, pR), RMul(RMul(L.rho, L.u), RSub(sL, L.u))), RMul(RMul(Rr.rho, Rr.u), RSub(sR, Rr.u))),
                 RSub(RMul(Rr.rho, RSub(sR, Rr.u)), RMul(L.rho, RSub(sL, L.u))))
      pS == RAdd(RMul(RMul(Rr.rho, RSub(Rr.u, sR)), RSub(Rr.u, sM)), pR)
      left == RSign(sM) >= 0
      K == IF left THEN L ELSE Rr
      sK == IF left THEN sL ELSE sR
      pK == IF left THEN pL ELSE pR
      upw == IF left THEN RSign(sL) >= 0 ELSE RSign(sR) <= 0
      smo == RDiv(sM, RSub(sK, sM))
      smu == RDiv(RSub(sK, K.u), RSub(sK, sM))
      fr == IF upw THEN RMul(K.rho, K.u) ELSE RMul(RMul(K.rho, sM), smu)
  IN IF upw THEN EuPhys(gam, K)
     ELSE <<fr,
            RAdd(RAdd(RMul(fr, K.u), RMul(RSub(pS, pK), smo)), pS),
            RAdd(RAdd(RMul(fr, EuE(gam, K)), RMul(RSub(RMul(pS, sM), RMul(pK, K.u)), smo)), RMul(pS, sM))>>

(* ------------------------------------------------------------------ property-level predicates *)
(* supercritical in one direction, decided exactly without any root: both states and the Roe average *)
SuperRight(gam, L, Rr) == /\ RLt(L.c, L.u) /\ RLt(Rr.c, Rr.u)
                          /\ RoeOK(L, Rr) /\ RSign(RoeU(L, Rr)) > 0 /\ RLt(RoeC2(gam, L, Rr), RSq(RoeU(L, Rr)))
SuperLeft(gam, L, Rr) == /\ RLt(L.u, RNeg(L.c)) /\ RLt(Rr.u, RNeg(Rr.c))
                         /\ RoeOK(L, Rr) /\ RSign(RoeU(L, Rr)) < 0 /\ RLt(RoeC2(gam, L, Rr), RSq(RoeU(L, Rr)))
SwSuperRight(L, Rr) == RLt(L.c, L.u) /\ RLt(Rr.c, Rr.u)
SwSuperLeft(L, Rr) == RLt(L.u, RNeg(L.c)) /\ RLt(Rr.u, RNeg(Rr.c))
(* C18: the wave speed used by the time step is the spectral radius of the Jacobian of the PHYSICAL flux: the analytic
   Jacobian A(W) (conservative variables) has the eigenpairs (u, .), (u +- c, r+-), checked exactly:  A r = lambda r *)
EuJac(gam, W) == LET u == W.u H == EuH(gam, W) g1 == RSub(gam, One) IN
  << <<Zero, One, Zero>>,
     <<RMul(RMul(Half, RSub(gam, R(3))), RSq(u)), RMul(RSub(R(3), gam), u), g1>>,
     <<RMul(u, RSub(RMul(RMul(Half, g1), RSq(u)), H)), RSub(H, RMul(g1, RSq(u))), RMul(gam, u)>> >>
EuEigen(gam, W, s) == LET lam == RAdd(W.u, RMul(R(s), W.c))
                          r == <<One, lam, RAdd(EuH(gam, W), RMul(R(s), RMul(W.u, W.c)))>>
                      IN MVec(EuJac(gam, W), r) = VScale(lam, r)
EuEigen0(gam, W) == LET r == <<One, W.u, RMul(Half, RSq(W.u))>> IN MVec(EuJac(gam, W), r) = VScale(W.u, r)
SwJac(g, W) == << <<Zero, One>>, <<RSub(RSq(W.c), RSq(W.u)), RMul(R(2), W.u)>> >>
SwEigen(g, W, s) == LET lam == RAdd(W.u, RMul(R(s), W.c)) r == <<One, lam>> IN MVec(SwJac(g, W), r) = VScale(lam, r)
SpectralRadius(W) == RAdd(RAbs(W.u), W.c)        \* = max |u|, |u + c|, |u - c| for c > 0

(* reflection parity of the flux components: even quantities change sign, odd ones are unchanged *)
MirrorOf(fl, parity) == [k \in 1..Len(fl) |-> IF parity[k] = "even" THEN RNeg(fl[k]) ELSE fl[k]]
EuParity == <<"even", "odd", "even">>
SwParity == <<"even", "odd">>
=============================================================================
