------------------------------- MODULE FVM2D -------------------------------
(***************************************************************************)
(* The 2D cartesian space operator flowdyn.modeldisc.fvm2dcart with the 2D  *)
(* reconstructions of flowdyn.xnum (extrapol2d1, extrapol2dk), for a scalar *)
(* quantity and a FREE flux F(pL, pR, axis), in exact rationals.            *)
(*                                                                         *)
(* Numbering as in the code: cell (i, j) has id nx*j + i (0-based);         *)
(* i-faces (nx+1)*ny first: face j*(nx+1) + i is the left face of cell      *)
(* (i, j); then j-faces: FShift + j*nx + i is the bottom face of (i, j).    *)
(* Data are tuples indexed by id + 1; face arrays by face index + 1.        *)
(***************************************************************************)
EXTENDS FVM1D

Cell(nx, i, j) == nx * j + i + 1
XF(nx, i, j) == j * (nx + 1) + i + 1                     \* i in 0..nx
YF(nx, ny, i, j) == (nx + 1) * ny + j * nx + i + 1        \* j in 0..ny
NF(nx, ny) == (nx + 1) * ny + nx * (ny + 1)

(* bcs: [left, right, bottom, top] each [type, val] with type in {"per", "copy", "dirichlet"} *)
XPer(bc) == bc.left.type = "per"
YPer(bc) == bc.bottom.type = "per"

(* calc_grad + calc_bc_grad: plain differences at faces *)
XGrad(nx, ny, d, bc) == [f \in 1..((nx + 1) * ny) |->
   LET j == (f - 1) \div (nx + 1) i == (f - 1) % (nx + 1) IN
   IF i > 0 /\ i < nx THEN RSub(d[Cell(nx, i, j)], d[Cell(nx, i - 1, j)])
   ELSE IF XPer(bc) THEN RSub(d[Cell(nx, 0, j)], d[Cell(nx, nx - 1, j)]) ELSE Zero]
YGrad(nx, ny, d, bc) == [g \in 1..(nx * (ny + 1)) |->
   LET j == (g - 1) \div nx i == (g - 1) % nx IN
   IF j > 0 /\ j < ny THEN RSub(d[Cell(nx, i, j)], d[Cell(nx, i, j - 1)])
   ELSE IF YPer(bc) THEN RSub(d[Cell(nx, i, 0)], d[Cell(nx, i, ny - 1)]) ELSE Zero]

(* interp_face: recon = "e1" (extrapol2d1) or <<"k", kappa>> (extrapol2dk) *)
Km(recon) == IF recon[1] = "e1" THEN Zero ELSE RMul(Q(1, 4), RSub(One, recon[2]))
Kp(recon) == IF recon[1] = "e1" THEN Zero ELSE RMul(Q(1, 4), RAdd(One, recon[2]))
(* state extrapolated from cell (i,j) to its right / left / top / bottom face *)
ToRight(nx, ny, d, xg, recon, i, j) == RAdd(d[Cell(nx, i, j)], RAdd(RMul(Km(recon), xg[XF(nx, i, j)]), RMul(Kp(recon), xg[XF(nx, i + 1, j)])))
ToLeft(nx, ny, d, xg, recon, i, j)  == RSub(d[Cell(nx, i, j)], RAdd(RMul(Km(recon), xg[XF(nx, i + 1, j)]), RMul(Kp(recon), xg[XF(nx, i, j)])))
ToTop(nx, ny, d, yg, recon, i, j)   == RAdd(d[Cell(nx, i, j)], RAdd(RMul(Km(recon), yg[j * nx + i + 1]), RMul(Kp(recon), yg[(j + 1) * nx + i + 1])))
ToBot(nx, ny, d, yg, recon, i, j)   == RSub(d[Cell(nx, i, j)], RAdd(RMul(Km(recon), yg[(j + 1) * nx + i + 1]), RMul(Kp(recon), yg[j * nx + i + 1])))

(* face states before boundary treatment; 0 on the missing side of boundary faces *)
PL0(nx, ny, d, bc, recon) == LET xg == XGrad(nx, ny, d, bc) yg == YGrad(nx, ny, d, bc) IN
  [f \in 1..NF(nx, ny) |->
     IF f <= (nx + 1) * ny
     THEN LET j == (f - 1) \div (nx + 1) i == (f - 1) % (nx + 1) IN
          IF i = 0 THEN Zero ELSE ToRight(nx, ny, d, xg, recon, i - 1, j)
     ELSE LET g == f - (nx + 1) * ny j == (g - 1) \div nx i == (g - 1) % nx IN
          IF j = 0 THEN Zero ELSE ToTop(nx, ny, d, yg, recon, i, j - 1)]
PR0(nx, ny, d, bc, recon) == LET xg == XGrad(nx, ny, d, bc) yg == YGrad(nx, ny, d, bc) IN
  [f \in 1..NF(nx, ny) |->
     IF f <= (nx + 1) * ny
     THEN LET j == (f - 1) \div (nx + 1) i == (f - 1) % (nx + 1) IN
          IF i = nx THEN Zero ELSE ToLeft(nx, ny, d, xg, recon, i, j)
     ELSE LET g == f - (nx + 1) * ny j == (g - 1) \div nx i == (g - 1) % nx IN
          IF j = ny THEN Zero ELSE ToBot(nx, ny, d, yg, recon, i, j)]

(* calc_bc: the boundary side of each boundary face *)
BcState(b, interior, connected) == CASE b.type = "per" -> connected [] b.type = "copy" -> interior [] b.type = "dirichlet" -> b.val
FaceStates2(nx, ny, d, bc, recon) ==
  LET l0 == PL0(nx, ny, d, bc, recon) r0 == PR0(nx, ny, d, bc, recon) IN
  << [f \in 1..NF(nx, ny) |->
        IF f <= (nx + 1) * ny
        THEN LET j == (f - 1) \div (nx + 1) i == (f - 1) % (nx + 1) IN
             IF i = 0 THEN BcState(bc.left, r0[f], l0[XF(nx, nx, j)]) ELSE l0[f]
        ELSE LET g == f - (nx + 1) * ny j == (g - 1) \div nx i == (g - 1) % nx IN
             IF j = 0 THEN BcState(bc.bottom, r0[f], l0[YF(nx, ny, i, ny)]) ELSE l0[f]],
     [f \in 1..NF(nx, ny) |->
        IF f <= (nx + 1) * ny
        THEN LET j == (f - 1) \div (nx + 1) i == (f - 1) % (nx + 1) IN
             IF i = nx THEN BcState(bc.right, l0[f], r0[XF(nx, 0, j)]) ELSE r0[f]
        ELSE LET g == f - (nx + 1) * ny j == (g - 1) \div nx i == (g - 1) % nx IN
             IF j = ny THEN BcState(bc.top, l0[f], r0[YF(nx, ny, i, 0)]) ELSE r0[f]] >>

Term2(nx, ny, fs, f) == <<fs[1][f], fs[2][f], IF f <= (nx + 1) * ny THEN 0 ELSE 1>>
Residual2(nx, ny, dx, dy, d, bc, recon) ==
  LET fs == FaceStates2(nx, ny, d, bc, recon)
      T(f) == LTerm(Term2(nx, ny, fs, f))
  IN [c \in 1..(nx * ny) |->
        LET j == (c - 1) \div nx i == (c - 1) % nx IN
        LAdd(LScale(RInv(dx), LSub(T(XF(nx, i, j)), T(XF(nx, i + 1, j)))),
             LScale(RInv(dy), LSub(T(YF(nx, ny, i, j)), T(YF(nx, ny, i, j + 1)))))]

(* ------------------------------------------------------------------ properties *)
AllPer == [left |-> Per, right |-> Per, bottom |-> Per, top |-> Per]
(* C01: sum over cells of vol * R = boundary fluxes (in - out) as a formal identity; 0 when fully periodic *)
Conservation2(nx, ny, dx, dy, d, bc, recon) ==
  LET fs == FaceStates2(nx, ny, d, bc, recon)
      T(f) == LTerm(Term2(nx, ny, fs, f))
      Rs == Residual2(nx, ny, dx, dy, d, bc, recon)
      total == LSum([c \in 1..(nx * ny) |-> LScale(RMul(dx, dy), Rs[c])])
      bx == LSum([j \in 1..ny |-> LScale(dy, LSub(T(XF(nx, 0, j - 1)), T(XF(nx, nx, j - 1))))])
      by == LSum([i \in 1..nx |-> LScale(dx, LSub(T(YF(nx, ny, i - 1, 0)), T(YF(nx, ny, i - 1, ny))))])
  IN /\ total = LAdd(bx, by)
     /\ (bc = AllPer => total = LZero)

(* C14: cyclic shifts along x and y commute with the periodic operator *)
Roll2(nx, ny, v, kx, ky) == [c \in 1..(nx * ny) |->
   LET j == (c - 1) \div nx i == (c - 1) % nx IN
   v[Cell(nx, (((i - kx) % nx) + nx) % nx, (((j - ky) % ny) + ny) % ny)]]
ShiftEquivariant2(nx, ny, dx, dy, d, recon, kx, ky) ==
  Residual2(nx, ny, dx, dy, Roll2(nx, ny, d, kx, ky), AllPer, recon) = Roll2(nx, ny, Residual2(nx, ny, dx, dy, d, AllPer, recon), kx, ky)

(* C15 (ii): transposition.  dT on the ny x nx grid with dT(j, i) = d(i, j); BC tags exchanged; a term F(a, b, axis)
   corresponds to F(a, b, 1 - axis) -- the free flux is assumed isotropic, which C02 checks for the real ones *)
Transpose(nx, ny, v) == [c \in 1..(nx * ny) |->     \* result indexed on the ny x nx grid (ny is the fast size)
   LET jj == (c - 1) \div ny ii == (c - 1) % ny IN v[Cell(nx, jj, ii)]]
TransposeBc(bc) == [left |-> bc.bottom, right |-> bc.top, bottom |-> bc.left, top |-> bc.right]
RECURSIVE LFlipSet(_, _)
LFlipSet(a, S) == IF S = {} THEN LZero
                  ELSE LET t == CHOOSE u \in S : TRUE
                       IN LAdd(LScale(a[t], LTerm(<<t[1], t[2], 1 - t[3]>>)), LFlipSet(a, S \ {t}))
LFlip(a) == LFlipSet(a, DOMAIN a)
TransposeEquivariant(nx, ny, dx, dy, d, bc, recon) ==
  LET Rt == Residual2(ny, nx, dy, dx, Transpose(nx, ny, d), TransposeBc(bc), recon)
      Ro == Residual2(nx, ny, dx, dy, d, bc, recon)
  IN \A c \in 1..(nx * ny) :
        LET jj == (c - 1) \div ny ii == (c - 1) % ny IN Rt[c] = LFlip(Ro[Cell(nx, jj, ii)])

(* C15 (iii): reflection in x: d'(i, j) = d(nx-1-i, j), left/right exchanged, x-terms F(a,b,0) |-> -F(b,a,0), y-terms kept *)
MirrorX(nx, ny, v) == [c \in 1..(nx * ny) |-> LET j == (c - 1) \div nx i == (c - 1) % nx IN v[Cell(nx, nx - 1 - i, j)]]
MirrorXBc(bc) == [left |-> bc.right, right |-> bc.left, bottom |-> bc.bottom, top |-> bc.top]
RECURSIVE LMirXSet(_, _)
LMirXSet(a, S) == IF S = {} THEN LZero
                  ELSE LET t == CHOOSE u \in S : TRUE
                       IN LAdd(IF t[3] = 0 THEN LScale(RNeg(a[t]), LTerm(<<t[2], t[1], 0>>)) ELSE LScale(a[t], LTerm(t)),
                               LMirXSet(a, S \ {t}))
LMirX(a) == LMirXSet(a, DOMAIN a)
MirrorXEquivariant(nx, ny, dx, dy, d, bc, recon) ==
  LET Rm == Residual2(nx, ny, dx, dy, MirrorX(nx, ny, d), MirrorXBc(bc), recon)
      Ro == Residual2(nx, ny, dx, dy, d, bc, recon)
  IN \A c \in 1..(nx * ny) : LET j == (c - 1) \div nx i == (c - 1) % nx IN Rm[c] = LMirX(Ro[Cell(nx, nx - 1 - i, j)])

(* C15 (i): data that do not vary along y: every row of the 2D residual is the 1D residual of that row (same free flux,
   corresponding reconstruction); the y-fluxes cancel *)
Recon1Of(recon) == IF recon[1] = "e1" THEN "extrapol1"
                   ELSE CASE recon[2] = R(-1) -> "k-1" [] recon[2] = Zero -> "k0" [] recon[2] = Q(1, 3) -> "k1/3"
                          [] recon[2] = Half -> "k1/2" [] recon[2] = One -> "k1"
RECURSIVE LTo2Set(_, _)
LTo2Set(a, S) == IF S = {} THEN LZero
                 ELSE LET t == CHOOSE u \in S : TRUE IN LAdd(LScale(a[t], LTerm(<<t[1], t[2], 0>>)), LTo2Set(a, S \ {t}))
LTo2(a) == LTo2Set(a, DOMAIN a)
RowAgrees1D(nx, ny, dx, dy, row, bcx, recon) ==
  LET d == [c \in 1..(nx * ny) |-> row[((c - 1) % nx) + 1]]
      bc == [left |-> bcx[1], right |-> bcx[2], bottom |-> Per, top |-> Per]
      xf == [f \in 1..(nx + 1) |-> RMul(dx, R(f - 1))]
      R1 == Residual(xf, RMul(dx, R(nx)), row, Recon1Of(recon), bcx[1], bcx[2])
      R2 == Residual2(nx, ny, dx, dy, d, bc, recon)
  IN \A c \in 1..(nx * ny) : R2[c] = LTo2(R1[((c - 1) % nx) + 1])
=============================================================================
