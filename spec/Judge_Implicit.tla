--------------------------- MODULE Judge_Implicit ---------------------------
(***************************************************************************)
(* C06 judge: observations of the real implicit integrators.                *)
(*   kind "lin"   one step on a linear operator A obtained from the code's  *)
(*                own rhs on unit impulses: residual of the DEFINING linear *)
(*                relation, in ulps of |Q| (1 + dt |A|) (harness-measured   *)
(*                token), time advance;                                     *)
(*   kind "amp"   scalar problem y' = z y with dyadic z, dt: the observed   *)
(*                amplification factor, identified with a rational, against *)
(*                1/(1-z dt), (1+z dt/2)/(1-z dt/2), BDF2 -- computed here, *)
(*                exactly;                                                  *)
(*   kind "grow"  l2 norm growth on the circulant upwind operator;          *)
(*   kind "jac"   Jacobian-vector product against a central difference of   *)
(*                the space operator.                                       *)
(***************************************************************************)
EXTENDS Rat, Json, IOUtils, SequencesExt

TolSolver == 1073741824        \* 2^30 ulps of 2^-52: about 2.4e-7 relative (TLC integers are 32 bit)
TolRoundoff == 4194304           \* 2^22

Recs == ndJsonDeserialize(IOEnv.JUDGE_IN)
VARIABLES i, bad

AmpImplicit(z) == RInv(RSub(One, z))
AmpCN(z) == RDiv(RAdd(One, RMul(Half, z)), RSub(One, RMul(Half, z)))
(* BDF2 second step after a CN start: (3 - 2z) g2 = 4 g1 - 1, g1 = AmpCN(z); amplification over the two steps *)
AmpGear2(z) == RDiv(RSub(RMul(R(4), AmpCN(z)), One), RSub(R(3), RMul(R(2), z)))

Expected(r) == LET z == RMul(FromPair(r.z), FromPair(r.dt)) IN
               CASE r.scheme = "implicit" -> AmpImplicit(z)
                 [] r.scheme = "cn"       -> AmpCN(z)
                 [] r.scheme = "gear2"    -> AmpGear2(z)

Failed(r) ==
  CASE r.kind = "lin" ->
         (IF r.relres <= TolSolver THEN {} ELSE {"C06_relation_" \o r.scheme})
         \cup (IF r.tadv <= TolRoundoff THEN {} ELSE {"C06_time"})
    [] r.kind = "amp" ->
         \* r.amp: the factor the scheme defines, computed by the harness; TLC recomputes it exactly from z and dt (the two
         \* must agree) and the observed float must lie within the solver tolerance of it (r.amperr, in ulps)
         (IF FromPair(r.amp) = Expected(r) /\ r.amperr <= TolSolver THEN {} ELSE {"C06_amplification_" \o r.scheme})
         \cup (IF r.grow = 0 /\ (RLe(FromPair(r.z), Zero) => RLe(RAbs(Expected(r)), One)) THEN {} ELSE {"C06_growth"})
    [] r.kind = "grow" -> IF r.grow <= TolRoundoff THEN {} ELSE {"C06_growth"}
    [] r.kind = "jac"  -> IF r.jacerr <= TolSolver THEN {} ELSE {"C06_jacobian"}
    [] OTHER -> {"unknown_record"}

Init == i = 0 /\ bad = <<>>
Step == /\ i < Len(Recs) /\ i' = i + 1
        /\ bad' = bad \o SetToSeq({[id |-> Recs[i'].id, clause |-> c] : c \in Failed(Recs[i'])})
Fin  == /\ i = Len(Recs) /\ ndJsonSerialize(IOEnv.JUDGE_OUT, bad) /\ PrintT(<<"JUDGED", i, Len(bad)>>)
        /\ i' = i + 1 /\ bad' = bad
Next == Step \/ Fin
Spec == Init /\ [][Next]_<<i, bad>>
=============================================================================
