"""C13 reflection and change of units: mirror equivariance of the free-flux operator model checked on all lattice meshes
(FVM1D: InvMirror); the real operator judged exactly with a table flux and its mirrored twin; real models / fluxes /
boundary conditions on either side / integrators judged on problem-vs-twin solves; power-of-two unit changes bitwise."""
import os, random, sys
from . import core
from . import fvm1d_cases as K1, real_cases as RC
from .fvm_check import run_check


def sig_of(r):
    return {"kind": r["kind"], "model": r.get("model", "table"), "flux": str(r.get("flux", "")), "recon": str(r.get("recon", "")),
            "bc": "%s/%s" % (r.get("bcl", ""), r.get("bcr", "")), "integrator": r.get("integrator", "")}


def run(tier):
    rnd = random.Random(core.seed())
    recs = K1.mirror_cases(rnd, tier) + RC.mirror_cases(rnd, tier) + RC.scaling_cases(rnd, tier)
    return run_check(
        "C13", tier,
        rule="model: all lattice meshes x data x reconstructions x BC pairs (formal mirror image of every flux term); code: table-flux "
             "operator vs its mirrored twin (exact), random real problems (every model, flux, reconstruction, BC type on either side, "
             "integrator) vs mirror twin (ulps), and vs the same problem in power-of-two units (bitwise)",
        assumptions=["mirror: round-off clause (solver clause for implicit integrators); scaling: bitwise, explicit integrators only "
                     "(LU pivoting is not scale invariant)",
                     "vanalbada / vanleer carry dimensional constants 1e-20, 1e-40: unit changes limited to 2^+-3 for them"],
        mc_runs=[("MC_FVM1D", "MC_FVM1D_cons.cfg" if tier == "quick" else "MC_FVM1D_cons_f.cfg", 16)],
        groups=[("Judge_FVM1D", recs)], prefixes=["C13"], sig_of=sig_of)


if __name__ == "__main__":
    sys.exit(run(os.environ.get("VERIF_TIER", "quick")))
