-------------------------------- MODULE Vars --------------------------------
(***************************************************************************)
(* Named variables of the Euler model (C17) and the conditions that DEFINE  *)
(* the Euler boundary states (C16), in exact rationals.                     *)
(* A state is a record [rho, u, p] of rationals (primitive variables).      *)
(* gamma is restricted here to values whose isentropic exponent             *)
(* n = gamma/(gamma-1) is an integer (gamma = 3/2: n = 3, gamma = 2: n = 2) *)
(* so that total pressure is a rational function of the state; the sound    *)
(* speed enters only through its square.                                    *)
(***************************************************************************)
EXTENDS Rat

NExp(gam) == IF gam = Q(3, 2) THEN 3 ELSE IF gam = R(2) THEN 2 ELSE 0
C2(gam, W) == RDiv(RMul(gam, W.p), W.rho)                                  \* asound^2
M2(gam, W) == RDiv(RSq(W.u), C2(gam, W))                                    \* mach^2
Enthalpy(gam, W) == RMul(RDiv(gam, RSub(gam, One)), RDiv(W.p, W.rho))
Htot(gam, W) == RAdd(Enthalpy(gam, W), RMul(Half, RSq(W.u)))
RTtot(gam, W) == RMul(RDiv(RSub(gam, One), gam), Htot(gam, W))
Fm(gam, W) == RAdd(One, RMul(RMul(Half, RSub(gam, One)), M2(gam, W)))      \* 1 + (gamma-1)/2 M^2
Ptot(gam, W) == RMul(W.p, RPow(Fm(gam, W), NExp(gam)))
Massflow(W) == RMul(W.rho, W.u)
KinEnergy(W) == RMul(Half, RMul(W.rho, RSq(W.u)))
RhoE(gam, W) == RAdd(RDiv(W.p, RSub(gam, One)), KinEnergy(W))
(* entropy is a logarithm: its exponential p / rho^gamma is compared instead, through (p/rho^gamma)^2 = p^2 / rho^(2 gamma) *)
EntropyArg2(gam, W) == RDiv(RSq(W.p), RPow(W.rho, IF gam = Q(3, 2) THEN 3 ELSE 4))

(* internal identities the property lists *)
Identities(gam, W) ==
  /\ RTtot(gam, W) = RMul(RDiv(RSub(gam, One), gam), Htot(gam, W))
  /\ Htot(gam, W) = RAdd(Enthalpy(gam, W), RMul(Half, RSq(W.u)))
  /\ RMul(M2(gam, W), C2(gam, W)) = RSq(W.u)
  /\ Enthalpy(gam, W) = RDiv(C2(gam, W), RSub(gam, One))
  /\ RMul(RSub(gam, One), RSub(RhoE(gam, W), KinEnergy(W))) = W.p            \* cons2prim(prim2cons) on the pressure

(* ------------------------------------------------------------------ boundary conditions: defining clauses (C16) *)
(* dir = -1 left boundary, +1 right boundary (outward normal).  I interior state, B returned boundary state, prm parameters *)
Inward(dir, B) == RSign(B.u) * dir <= 0
Outward(dir, B) == RSign(B.u) * dir >= 0
(* Riemann invariants: u + dir * 2 a / (gamma-1) leaves the domain through the boundary with normal dir; compared through
   squares: (u_B - u_I)^2 (gamma-1)^2 / 4 = (a_I - a_B)^2  and sign; here only used where a is rational (see judge) *)
BcInsub(gam, dir, I, B, prm) == Ptot(gam, B) = prm.ptot /\ RTtot(gam, B) = prm.rttot /\ B.p = I.p /\ Inward(dir, B)
BcInsup(gam, dir, I, B, prm) == Ptot(gam, B) = prm.ptot /\ RTtot(gam, B) = prm.rttot /\ B.p = prm.p /\ Inward(dir, B)
BcOutsub(gam, dir, I, B, prm) == B.p = prm.p /\ B.rho = I.rho /\ B.u = I.u
BcOutsubQtot(gam, dir, I, B, prm) == Ptot(gam, B) = Ptot(gam, I) /\ RTtot(gam, B) = RTtot(gam, I) /\ B.p = prm.p /\ Outward(dir, B)
BcOutsup(I, B) == B = I
BcSym(I, B) == B.rho = I.rho /\ B.p = I.p /\ B.u = RNeg(I.u)
(* Rankine-Hugoniot across a discontinuity of speed W between I (upstream) and B: the three jump relations *)
RHJump(gam, I, B, Ws) ==
  LET mI == RMul(I.rho, RSub(I.u, Ws)) mB == RMul(B.rho, RSub(B.u, Ws)) IN
  /\ mI = mB
  /\ RAdd(RMul(mI, RSub(I.u, Ws)), I.p) = RAdd(RMul(mB, RSub(B.u, Ws)), B.p)
  /\ RAdd(Enthalpy(gam, I), RMul(Half, RSq(RSub(I.u, Ws)))) = RAdd(Enthalpy(gam, B), RMul(Half, RSq(RSub(B.u, Ws))))
=============================================================================
