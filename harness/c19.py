"""C19 source terms: the add_source stage of the space operator (FVM1D.tla: DRIFT_residual / C01 with sources) and the
difference of two real operators (with / without sources) judged by TLC; nozzle composition of user and geometric sources."""
import os, random, sys
from . import core
from . import fvm1d_cases as K1, real_cases as RC
from .fvm_check import run_check


def sig_of(r):
    return {"kind": r["kind"], "model": r.get("model", "table"), "flux": str(r.get("flux", "")), "recon": str(r.get("recon", "")),
            "subset": str(r.get("subset", ""))}


def run(tier):
    rnd = random.Random(core.seed())
    recs = K1.exact_rhs_cases(rnd, tier, want_sources=True) + RC.source_cases(rnd, tier)
    return run_check(
        "C19", tier,
        rule="model: FVM1D.tla with a source stage on all lattice meshes (the exact records carry the source vector: residual = flux "
             "balance + source, conservation with sum vol*S); code: euler1d / nozzle / shallowwater built with recording callables for "
             "all subsets of equations x state-, position-dependent and constant sources x meshes x reconstructions x fluxes, "
             "difference of the operators with and without sources; nozzle geometric term against its definition on linear section laws",
        assumptions=["the difference of two float residuals equals the source within 8 ulp of |R|+|S| (one rounding each); geometric "
                     "term within TolRoundoff (the difference A(x_f+) - A(x_f-) cancels on small cells)",
                     "definition of the geometric factor: (A(x_f+) - A(x_f-)) / (dx A(x_c)), exact for linear section laws"],
        mc_runs=[("MC_FVM1D", "MC_FVM1D_cons.cfg", 16)],
        groups=[("Judge_FVM1D", recs)], prefixes=["C19"], sig_of=sig_of)


if __name__ == "__main__":
    sys.exit(run(os.environ.get("VERIF_TIER", "quick")))
