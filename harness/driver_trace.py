"""Trace validation of recorded driver event logs against Driver.tla (spec/Trace_Driver.tla)."""
import os
from . import core


def validate(traces, wd, name="trace"):
    """returns (accepted ids, rejected ids, TLCResult)"""
    tf, out = os.path.join(wd, name + "_in.ndjson"), os.path.join(wd, name + "_out.csv")
    core.write_ndjson(tf, traces)
    if os.path.exists(out):
        os.remove(out)
    res = core.tlc("Trace_Driver", "Trace_Driver.cfg", workers=1, env={"TRACE_FILE": tf, "TRACE_OUT": out},
                   timeout=3000, heap="6g")
    if res.rc != 0 or res.errors:
        raise core.MachineryError("Trace_Driver failed:\n" + "\n".join(res.stdout.splitlines()[-30:]))
    acc = set()
    if os.path.exists(out):
        with open(out) as f:
            acc = {int(x) for x in f.read().split()}
    allids = {t["id"] for t in traces}
    return acc, allids - acc, res


def report(rep, traces, wd, describe):
    if not traces:
        return
    acc, rej, res = validate(traces, wd)
    rep.add_tlc("Trace_Driver", res, counts_as_model=False)
    rep.extra["event_traces_validated"] = len(traces)
    rep.extra["event_traces_accepted"] = len(acc)
    rep.extra["event_trace_events"] = sum(len(t["events"]) for t in traces)
    rep.traces += len(traces)
    for tid in sorted(rej)[:10]:
        rep.drift.append("event trace %d is not a behaviour of Driver.tla: %s" % (tid, describe(tid)))
    rep.extra["event_traces_rejected"] = len(rej)
