------------------------------ MODULE MC_FVM2D ------------------------------
EXTENDS FVM2D
CONSTANTS Sizes,      \* set of <<nx, ny>>
          DataVals2, Recons2, CheckKinds2
VARIABLES nx, ny, recon, bc, d, ck
vars == <<nx, ny, recon, bc, d, ck>>
Cp == [type |-> "copy", val |-> Zero]
Dr(v) == [type |-> "dirichlet", val |-> v]
BcSets == {AllPer,
           [left |-> Cp, right |-> Cp, bottom |-> Cp, top |-> Cp],
           [left |-> Per, right |-> Per, bottom |-> Cp, top |-> Dr(One)],
           [left |-> Dr(R(2)), right |-> Cp, bottom |-> Per, top |-> Per],
           [left |-> Cp, right |-> Dr(Zero), bottom |-> Dr(One), top |-> Cp]}
ReconSet == {<<"e1", Zero>>, <<"k", R(-1)>>, <<"k", Zero>>, <<"k", Q(1, 3)>>, <<"k", One>>}
NoData == <<>>
SizesQuick == {<<1, 1>>, <<2, 1>>, <<1, 2>>, <<2, 2>>, <<3, 2>>}
SizesFull == {<<1, 1>>, <<2, 1>>, <<1, 2>>, <<2, 2>>, <<3, 2>>, <<2, 3>>, <<3, 3>>, <<4, 2>>, <<1, 4>>}
DX == Q(1, 2)
DY == R(2)
Init == /\ \E s \in Sizes : nx = s[1] /\ ny = s[2]
        /\ recon \in {r \in ReconSet : r[1] \in Recons2}
        /\ ck \in CheckKinds2
        /\ bc \in (IF ck = "shift" THEN {AllPer} ELSE BcSets)
        /\ d = NoData
Pick == /\ d = NoData
        /\ IF ck = "rows" THEN \E row \in [1..nx -> {R(v) : v \in DataVals2}] : d' = [c \in 1..(nx * ny) |-> row[((c - 1) % nx) + 1]]
           ELSE d' \in [1..(nx * ny) -> {R(v) : v \in (IF nx * ny > 6 THEN {0, 1} ELSE DataVals2)}]   \* 3^9 data sets are too many
        /\ UNCHANGED <<nx, ny, recon, bc, ck>>
Spec == Init /\ [][Pick]_vars
Has == d # NoData
InvCons2 == (Has /\ ck = "cons") => Conservation2(nx, ny, DX, DY, d, bc, recon)
InvTranspose == (Has /\ ck = "cons") => TransposeEquivariant(nx, ny, DX, DY, d, bc, recon)
InvMirrorX == (Has /\ ck = "cons") => MirrorXEquivariant(nx, ny, DX, DY, d, bc, recon)
InvShift2 == (Has /\ ck = "shift") => \A kx \in 0..(nx - 1) : \A ky \in 0..(ny - 1) : ShiftEquivariant2(nx, ny, DX, DY, d, recon, kx, ky)
InvRows == (Has /\ ck = "rows" /\ bc.bottom.type = "per") =>
              RowAgrees1D(nx, ny, DX, DY, [i \in 1..nx |-> d[i]], <<bc.left, bc.right>>, recon)
(* uniform data with compatible boundaries: zero residual (C03) *)
InvConst2 == (~Has /\ ck = "cons") =>
               LET ok(b) == b.type # "dirichlet" \/ b.val = One
                   dd == [c \in 1..(nx * ny) |-> One]
               IN (ok(bc.left) /\ ok(bc.right) /\ ok(bc.bottom) /\ ok(bc.top)) =>
                     \A c \in 1..(nx * ny) : Residual2(nx, ny, DX, DY, dd, bc, recon)[c] = LZero
=============================================================================
